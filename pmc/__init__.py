"""pmc - bounded exhaustive exploration ("model checking") of panoptica on the real code.

Import order matters: `pmc.seams.install()` must run before `import panoptica`.
"""
