"""Helpers around Panoptica_Aggregator on the in-memory file system: sessions, crash injection, file parsing."""
from __future__ import annotations

import csv
import io

import numpy as np

from . import seams, vfs
from .lib import make_evaluator

seams.install()

from panoptica import Panoptica_Aggregator  # noqa: E402
import panoptica.panoptica_aggregator as pa_mod  # noqa: E402


def parse_tsv(text):
    return [row for row in csv.reader(io.StringIO(text, newline=""), delimiter="\t", lineterminator="\n")]


def fresh_locks():
    """a new process has new, unheld lock objects (module level locks are created at import)"""
    from . import sched

    sched.reset_locks()


def run_exit_handlers():
    """the recorded atexit callbacks of a session that ends normally"""
    cbs, seams.atexit_callbacks[:] = list(seams.atexit_callbacks), []
    for f, a, k in cbs:
        try:
            f(*a, **k)
        except vfs.Crash:
            raise
        except Exception:
            pass


def drop_exit_handlers():
    seams.atexit_callbacks[:] = []


def _tiny_rvd():
    r = np.zeros(10020, dtype=np.uint8)
    p = np.zeros(10020, dtype=np.uint8)
    r[0:10001] = 1
    p[0:10002] = 1  # one voxel more than 10 001: RVD = 9.999e-05, written in exponent notation
    r[10005:10008] = 2
    p[10005:10008] = 2
    r[10010:10014] = 3
    p[10011:10014] = 3
    return p, r


INPUTS = {
    "tiny_rvd": _tiny_rvd(),
    "tp": (np.array([[1, 1, 0, 0, 0], [0, 0, 2, 2, 2], [0, 0, 0, 0, 3]], dtype=np.uint8), np.array([[1, 1, 1, 0, 0], [0, 0, 2, 0, 0], [0, 0, 0, 3, 3]], dtype=np.uint8)),
    "empty_pred": (np.zeros((3, 5), dtype=np.uint8), np.array([[1, 1, 1, 0, 0], [0, 0, 2, 0, 0], [0, 0, 0, 3, 3]], dtype=np.uint8)),
    "none": (np.zeros((3, 5), dtype=np.uint8), np.zeros((3, 5), dtype=np.uint8)),
    "partial": (np.array([[1, 1, 0, 0, 0], [0, 0, 0, 0, 0], [0, 0, 0, 0, 0]], dtype=np.uint8), np.array([[1, 1, 1, 0, 0], [0, 0, 2, 2, 0], [0, 0, 0, 3, 3]], dtype=np.uint8)),
    "miss": (np.array([[1, 0, 0, 0, 0], [0, 0, 0, 0, 2], [3, 0, 0, 0, 0]], dtype=np.uint8), np.array([[0, 0, 1, 1, 0], [2, 2, 0, 0, 0], [0, 0, 0, 3, 3]], dtype=np.uint8)),
}
