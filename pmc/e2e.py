"""End-to-end comparison of Panoptica_Evaluator.evaluate with the reference model (used by C01, C02, C08, ...)."""
from __future__ import annotations

import math

import numpy as np

from . import refmodel as rm
from .lib import Metric, make_evaluator, observe, rows_of, same_value

ALLM = ("IOU", "DSC", "ASSD", "RVD")
TOL = dict(rel=1e-9, abs_=1e-12)


def instances_of(arr, itype, backend):
    """list of (label_or_index, voxel set) in a deterministic order"""
    if itype == "SEMANTIC":
        return list(enumerate(rm.approx_instances(arr, None if backend in (None, "default") else backend)))
    vs = rm.voxsets(arr)
    return [(l, vs[l]) for l in sorted(vs)]


class Model:
    """reference view of one (pred, ref, input type, backend)"""

    def __init__(self, pred, ref, itype, backend=None):
        self.itype = itype
        self.pi = instances_of(pred, itype, backend)
        self.ri = instances_of(ref, itype, backend)
        self.rp = rm.RefPair([s for _, s in self.pi], [s for _, s in self.ri])
        self.n_pred, self.n_ref = len(self.pi), len(self.ri)

    def matched_assignment(self):
        rl = {l: j for j, (l, _) in enumerate(self.ri)}
        return frozenset((i, rl[l]) for i, (l, _) in enumerate(self.pi) if l in rl)

    def assignments(self, matcher):
        """set of admissible assignments (frozensets of (p, r)), capped flag"""
        if self.itype == "MATCHED":
            return {self.matched_assignment()}, False
        assert matcher[0] == "thr" and not matcher[3]
        return self.rp.admissible(matcher[1], matcher[2])

    def expected(self, assignment, decision, metrics=ALLM):
        if self.itype == "MATCHED":
            # matched input: instance counts are the label counts
            return rm.evaluate(self.rp, assignment, metrics, decision, n_pred=self.n_pred, n_ref=self.n_ref)
        return rm.evaluate(self.rp, assignment, metrics, decision)


def cmp_expected(obs, exp, metrics=ALLM, aggregates=True):
    """list of keys on which the library observation differs from one expected result"""
    d = []
    for k in ("num_ref_instances", "num_pred_instances", "tp", "fp", "fn"):
        if obs[k] != exp[k]:
            d.append(k)
    if not same_value(obs["rq"], exp["rq"], rel=1e-12):
        d.append("rq")
    rows = rows_of(obs, metrics)
    erows = sorted(tuple(r[m] for m in metrics) for r in exp["rows"])
    if rows is None or rows == "RAGGED":
        d.append("lists")
    elif len(rows) != len(erows):
        d.append("list_length")
    else:
        for a, b in zip(rows, erows):
            for m, x, y in zip(metrics, a, b):
                if not same_value(x, y, rel=1e-9 if m == "ASSD" else 1e-12, abs_=1e-12 if m == "ASSD" else 1e-15):
                    d.append("list_" + m)
    if aggregates and exp["tp"] > 0:
        for m in metrics:
            for pre in ("sq_", "std_", "pq_"):
                k = pre + m
                if k in exp and k in obs and not same_value(obs[k], exp[k], **TOL):
                    d.append(k)
    return sorted(set(d))


def _mask(shape, S):
    m = np.zeros(shape, dtype=bool)
    for c in S:
        m[c] = True
    return m


def lib_pair_score(metric, shape, R, P):
    """the library's own value of `metric` on the two voxel sets (as boolean masks)"""
    try:
        return float(Metric[metric](_mask(shape, R), _mask(shape, P)))
    except Exception:
        return None


def guarded_thresholds(model: Model, metric, pairs, acc, shape=None):
    """every threshold class over the scores of `pairs`; an exact-hit threshold is only kept when the library's own score of
    that pair is bit-identical to the reference value (and, for ASSD, all contributing distances are integral), so that a
    harmless 1-ulp difference can never raise an alarm; dropped classes are counted."""
    rp = model.rp
    thrs = rp.thresholds(metric, pairs)
    bad = set()
    for p, r in pairs:
        s = rp.score(metric, p, r)
        if metric == "ASSD" and not rp.assd_integral(p, r):
            bad.add(s)
            continue
        if shape is not None:
            ls = lib_pair_score(metric, shape, rp.R[r], rp.P[p])
            if ls is None or ls != s:
                bad.add(s)
    keep = [t for t in thrs if t not in bad]
    if acc is not None and len(keep) != len(thrs):
        acc.count("near_threshold_skipped", len(thrs) - len(keep))
    return keep


def run_eval(acc, ev, pred, ref):
    """call evaluate on copies; returns (result, steps) or raises"""
    out = ev.evaluate(pred.copy(), ref.copy(), verbose=False)
    return out


def state_hashes(acc, steps):
    """hash every intermediate pipeline state of IntermediateStepsData"""
    try:
        inter = steps._intermediatesteps
    except Exception:
        return
    for k, v in inter.items():
        try:
            acc.state(k, np.asarray(v.prediction_arr), np.asarray(v.reference_arr))
            acc.step()
        except Exception:
            pass
