"""Sharded exhaustive runner: blocks of a finite scope are distributed over forked workers; every worker
accounts states / transitions / executions; violations become replay files; evidence is written.

A property module provides
    ID, LEVEL, TECHNIQUE-free functions:
    blocks(tier) -> list of small picklable block descriptors, simplest first
    run_block(block, acc) -> enumerates the cases of the block and calls run_case
    run_case(case, acc)  -> executes ONE case (JSON-able dict) on the real code and judges it
    RULE (str), ASSUMPTIONS (list[str]), optional finish(tier, summary) -> extra coverage keys / checks
"""
from __future__ import annotations

import hashlib
import json
import os
import re
import sys
import threading
import time
import traceback
from collections import Counter

import numpy as np

from . import seams

VERIF = os.path.dirname(os.path.dirname(os.path.abspath(__file__)))
# outputs of runs against a scratch copy (mutant runs) go elsewhere so that they never clobber the real evidence
OUT = os.environ.get("VERIF_OUT_DIR", VERIF)
NPROC = int(os.environ.get("VERIF_JOBS", str(os.cpu_count() or 4)))
MASK = (1 << 64) - 1


def h64(*parts) -> int:
    """Deterministic 64-bit hash (PYTHONHASHSEED independent)."""
    m = hashlib.blake2b(digest_size=8)
    for p in parts:
        if isinstance(p, np.ndarray):
            m.update(str(p.dtype).encode())
            m.update(str(p.shape).encode())
            m.update(np.ascontiguousarray(p).tobytes())
        elif isinstance(p, bytes):
            m.update(p)
        else:
            m.update(repr(p).encode())
        m.update(b"|")
    return int.from_bytes(m.digest(), "little")


class Acc:
    """Per-block accumulator living in the worker."""

    MAX_SAMPLES = 3

    def __init__(self, prop_id, replay_mode=False):
        self.prop_id = prop_id
        self.states: set[int] = set()
        self.nontrivial: set[int] = set()
        self.outcomes: set[int] = set()
        self.transitions = 0
        self.evaluations = 0
        self.validated = 0
        self.counters: Counter = Counter()
        self.violations: list = []
        self.samples: list = []
        self.casehash = 0
        self.replay_mode = replay_mode

    # -- accounting
    def case(self, *key):
        self.evaluations += 1
        self.casehash ^= h64("case", *key)

    def state(self, *parts):
        self.states.add(h64(*parts))

    def step(self, n=1):
        self.transitions += n

    def nontriv(self, *key):
        self.nontrivial.add(h64(*key))

    def outcome(self, *key):
        self.outcomes.add(h64(*key))

    def ok(self, n=1):
        self.validated += n

    def count(self, name, n=1):
        self.counters[name] += n

    def sample(self, obj):
        if len(self.samples) < self.MAX_SAMPLES:
            self.samples.append(obj)

    def violation(self, signature, case, message):
        """signature: short stable string naming the failure class (used for known-findings and file names)."""
        blob = json.dumps(case, sort_keys=True, default=_jsonable)
        self.violations.append((signature, len(blob), blob, str(message)[:2000]))
        if self.replay_mode:
            seams.say(f"  violation [{signature}]: {message}")

    def export(self):
        # keep only the smallest violation per signature inside the block
        best = {}
        nviol = Counter()
        for sig, size, blob, msg in self.violations:
            nviol[sig] += 1
            if sig not in best or size < best[sig][0]:
                best[sig] = (size, blob, msg)
        return dict(
            states=np.fromiter(self.states, dtype=np.uint64, count=len(self.states)).tobytes(),
            nontrivial=np.fromiter(self.nontrivial, dtype=np.uint64, count=len(self.nontrivial)).tobytes(),
            outcomes=np.fromiter(self.outcomes, dtype=np.uint64, count=len(self.outcomes)).tobytes(),
            transitions=self.transitions,
            evaluations=self.evaluations,
            validated=self.validated,
            counters=dict(self.counters),
            best=best,
            nviol=dict(nviol),
            samples=self.samples,
            casehash=self.casehash,
            leaks=dict(seams.leaks),
        )


def _jsonable(o):
    if isinstance(o, np.ndarray):
        return {"__nd__": o.tolist(), "dtype": str(o.dtype)}
    if isinstance(o, (np.integer,)):
        return int(o)
    if isinstance(o, (np.floating,)):
        return float(o)
    if isinstance(o, (set, frozenset)):
        return sorted(o)
    if isinstance(o, tuple):
        return list(o)
    return repr(o)


class _U64Set:
    """Exact distinct count of 64-bit hashes with bounded overhead (sorted numpy arrays, merged lazily)."""

    def __init__(self):
        self.parts = []
        self.pending = 0
        self.base = np.empty(0, dtype=np.uint64)

    def add_bytes(self, b):
        if not b:
            return
        a = np.frombuffer(b, dtype=np.uint64)
        self.parts.append(a)
        self.pending += a.size
        if self.pending > 4_000_000:
            self._merge()

    def _merge(self):
        if self.parts:
            self.base = np.unique(np.concatenate([self.base] + self.parts))
            self.parts = []
            self.pending = 0

    def __len__(self):
        self._merge()
        return int(self.base.size)


_PROP = None


def _work(arg):
    idx, block = arg
    prop = _PROP
    acc = Acc(prop.ID)
    t0 = time.time()
    try:
        prop.run_block(block, acc)
    except BaseException as e:  # harness error, not a verdict
        return dict(error="".join(traceback.format_exception(e))[-4000:], idx=idx, block=repr(block)[:300])
    out = acc.export()
    out["idx"] = idx
    out["wall"] = time.time() - t0
    return out


def load_known():
    p = os.path.join(VERIF, "known_findings.json")
    if not os.path.exists(p):
        return []
    with open(p) as f:
        return json.load(f).get("entries", [])


def _safe(s):
    return re.sub(r"[^A-Za-z0-9_.=+-]+", "_", s)[:120]


def run(prop, tier: str, seed: int) -> int:
    global _PROP
    _PROP = prop
    t0 = time.time()
    budget = getattr(prop, "BUDGET", {}).get(tier)
    if os.environ.get("VERIF_BUDGET_S"):
        budget = float(os.environ["VERIF_BUDGET_S"])
    blocks = list(prop.blocks(tier))
    nblocks = len(blocks)
    indexed = list(enumerate(blocks))
    # VERIF_SEED only rotates the shard assignment; the explored set is seed independent
    if nblocks and getattr(prop, "ROTATE", True):
        r = seed % nblocks
        # keep "simplest first" mostly intact: rotate inside windows of NPROC blocks
        w = max(NPROC, 1)
        rot = []
        for i in range(0, nblocks, w):
            win = indexed[i : i + w]
            k = r % len(win)
            rot.extend(win[k:] + win[:k])
        indexed = rot

    states, nontriv, outcomes = _U64Set(), _U64Set(), _U64Set()
    tot = Counter()
    counters = Counter()
    best: dict = {}
    nviol = Counter()
    samples = []
    casehash = 0
    done = 0
    errors = []
    capped = False
    leaks = Counter()

    def merge(res):
        nonlocal casehash, done
        if "error" in res:
            errors.append(res)
            return
        done += 1
        states.add_bytes(res["states"])
        nontriv.add_bytes(res["nontrivial"])
        outcomes.add_bytes(res["outcomes"])
        for k in ("transitions", "evaluations", "validated"):
            tot[k] += res[k]
        counters.update(res["counters"])
        for sig, (size, blob, msg) in res["best"].items():
            if sig not in best or size < best[sig][0]:
                best[sig] = (size, blob, msg)
        nviol.update(res["nviol"])
        for s in res["samples"]:
            if len(samples) < 5:
                samples.append(s)
        casehash ^= res["casehash"]
        leaks.update(res["leaks"])

    serial = NPROC <= 1 or nblocks <= 1 or getattr(prop, "SERIAL", False)
    if serial:
        for a in indexed:
            merge(_work(a))
            if errors:
                break
            if budget and time.time() - t0 > budget:
                capped = done < nblocks
                break
    else:
        import multiprocessing

        ctx = multiprocessing.get_context("fork")
        threading.current_thread()._pmc_engine = True
        pool = ctx.Pool(min(NPROC, nblocks))
        threading.current_thread()._pmc_engine = False
        try:
            for res in pool.imap_unordered(_work, indexed, chunksize=1):
                merge(res)
                if errors:
                    break
                if budget and time.time() - t0 > budget and done < nblocks:
                    capped = True
                    break
        finally:
            pool.terminate()
            pool.join()

    wall = time.time() - t0
    if errors:
        e = errors[0]
        seams.say(f"HARNESS-ERROR property={prop.ID} block={e['block']}\n{e['error']}")
        return 2
    if any(leaks.values()):
        seams.say(f"HARNESS-ERROR property={prop.ID} seam leak: {dict(leaks)} (real OS resources were touched)")
        return 2

    summary = dict(
        states=len(states),
        transitions=tot["transitions"],
        evaluations=tot["evaluations"],
        validated=tot["validated"],
        nontrivial=len(nontriv),
        outcomes=len(outcomes),
        counters=dict(counters),
        blocks_done=done,
        blocks_total=nblocks,
        capped=capped,
        casehash=casehash,
    )

    extra = {}
    if hasattr(prop, "finish"):
        try:
            extra = prop.finish(tier, summary) or {}
        except Exception as e:
            seams.say(f"HARNESS-ERROR property={prop.ID} finish(): {e!r}\n{traceback.format_exc()}")
            return 2
    # finish() may report violations of its own (cross-block checks)
    for sig, case, msg in extra.pop("violations", []):
        blob = json.dumps(case, sort_keys=True, default=_jsonable)
        nviol[sig] += 1
        if sig not in best or len(blob) < best[sig][0]:
            best[sig] = (len(blob), blob, msg)
    vacuous = extra.pop("vacuous", None)

    # ---- violations vs known findings
    known = [k for k in load_known() if k.get("property") == prop.ID]
    exit_code = 0
    lines = []
    n_unknown = 0
    for sig in sorted(best):
        size, blob, msg = best[sig]
        entry = next((k for k in known if k.get("status") == "finding" and sig.startswith(k["signature"])), None)
        if entry is not None:
            lines.append(f"KNOWN-FINDING: property={prop.ID} {entry['signature']}: {entry['description']} ({nviol[sig]} cases this run)")
            continue
        n_unknown += 1
        rdir = os.path.join(OUT, "replays", prop.ID)
        os.makedirs(rdir, exist_ok=True)
        path = os.path.join(rdir, _safe(sig) + ".json")
        with open(path, "w") as f:
            json.dump(dict(property=prop.ID, signature=sig, message=msg, count_in_run=nviol[sig], case=json.loads(blob)), f, indent=1)
        lines.append(f"VIOLATION property={prop.ID} replay={path}")
        lines.append(f"  [{sig}] x{nviol[sig]}: {msg[:400]}")
        exit_code = 1
    if vacuous:
        seams.say(f"HARNESS-ERROR property={prop.ID} vacuous exploration: {vacuous}")
        return 2

    cov = dict(
        states=max(summary["states"], 0),
        transitions=summary["transitions"],
        traces_validated_against_impl=summary["validated"],
        evaluations=summary["evaluations"],
        distinct_nontrivial=summary["nontrivial"],
        distinct_outcomes=summary["outcomes"],
        rule=prop.RULE,
        samples=samples if samples else [],
        exhaustive=not capped,
        blocks_done=done,
        blocks_total=nblocks,
        case_set_hash=f"{casehash:016x}",
        counters=dict(sorted(counters.items())),
        jobs=NPROC,
    )
    if capped:
        cov["cap"] = f"time budget {budget}s reached after {done}/{nblocks} blocks (blocks are ordered simplest first; the completed blocks were enumerated completely)"
    cov.update(extra)
    ev = dict(
        property_id=prop.ID,
        tier=tier,
        seed=seed,
        level=prop.LEVEL,
        coverage=cov,
        assumptions=list(getattr(prop, "ASSUMPTIONS", [])),
        wall_s=round(wall, 2),
        violations=sum(nviol.values()),
    )
    os.makedirs(os.path.join(OUT, "evidence"), exist_ok=True)
    evp = os.path.join(OUT, "evidence", prop.ID + ".json")
    with open(evp, "w") as f:
        json.dump(ev, f, indent=1, default=_jsonable)
        f.write("\n")
    for ln in lines:
        seams.say(ln)
    seams.say(
        f"{prop.ID} tier={tier} seed={seed} blocks={done}/{nblocks} executions={cov['evaluations']} states={cov['states']} "
        f"transitions={cov['transitions']} validated={cov['traces_validated_against_impl']} nontrivial={cov['distinct_nontrivial']} "
        f"outcomes={cov['distinct_outcomes']} exhaustive={cov['exhaustive']} violations={ev['violations']} ({n_unknown} unknown signatures) wall={wall:.1f}s"
    )
    return exit_code


def replay(prop, path) -> int:
    with open(path) as f:
        data = json.load(f)
    case = data["case"] if "case" in data else data
    acc = Acc(prop.ID, replay_mode=True)
    prop.run_case(case, acc)
    sigs = sorted({v[0] for v in acc.violations})
    if sigs:
        seams.say(f"REPLAY property={prop.ID} file={path}: VIOLATION reproduced, signatures={sigs}")
        return 1
    seams.say(f"REPLAY property={prop.ID} file={path}: no violation (property holds on this case)")
    return 0
