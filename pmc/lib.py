"""Thin adapters between plain-data cases and the real panoptica objects (imported lazily, after seams)."""
from __future__ import annotations

import math

import numpy as np

from . import seams

seams.install()

from panoptica import ConnectedComponentsInstanceApproximator, InputType, Panoptica_Evaluator  # noqa: E402
from panoptica.instance_matcher import MaximizeMergeMatching, NaiveThresholdMatching  # noqa: E402
from panoptica.metrics import Metric, MetricMode  # noqa: E402
from panoptica.utils.constants import CCABackend  # noqa: E402
from panoptica.utils.edge_case_handling import (  # noqa: E402
    EdgeCaseHandler,
    EdgeCaseResult,
    MetricZeroTPEdgeCaseHandling,
)
from panoptica.utils.processing_pair import MatchedInstancePair, SemanticPair, UnmatchedInstancePair  # noqa: E402

ITYPE = {"SEMANTIC": InputType.SEMANTIC, "UNMATCHED": InputType.UNMATCHED_INSTANCE, "MATCHED": InputType.MATCHED_INSTANCE}
SQ_ATTR = {"IOU": ("sq", "sq_std", "pq"), "DSC": ("sq_dsc", "sq_dsc_std", "pq_dsc"), "ASSD": ("sq_assd", "sq_assd_std", None), "RVD": ("sq_rvd", "sq_rvd_std", None), "clDSC": ("sq_cldsc", "sq_cldsc_std", "pq_cldsc")}


def metric(name):
    return Metric[name]


def make_matcher(cfg):
    """cfg: None | ["thr", metric, threshold, many_to_one] | ["merge", metric, threshold]"""
    if cfg is None:
        return None
    if cfg[0] == "thr":
        return NaiveThresholdMatching(matching_metric=Metric[cfg[1]], matching_threshold=cfg[2], allow_many_to_one=bool(cfg[3]))
    if cfg[0] == "merge":
        return MaximizeMergeMatching(matching_metric=Metric[cfg[1]], matching_threshold=cfg[2])
    raise ValueError(cfg)


def make_approximator(backend):
    """backend: 'none' -> no approximator, None/'default' -> default backend, 'cc3d', 'scipy'"""
    if backend == "none":
        return None
    if backend in (None, "default"):
        return ConnectedComponentsInstanceApproximator()
    return ConnectedComponentsInstanceApproximator(cca_backend=CCABackend[backend])


ECR = {"INF": EdgeCaseResult.INF, "NAN": EdgeCaseResult.NAN, "ZERO": EdgeCaseResult.ZERO, "ONE": EdgeCaseResult.ONE, "NONE": EdgeCaseResult.NONE}
ECR_NAMES = ("INF", "NAN", "ZERO", "ONE", "NONE")
ECR_VALUE = {"INF": math.inf, "NAN": math.nan, "ZERO": 0.0, "ONE": 1.0, "NONE": None}


def make_handler(cfg):
    """cfg: None | {"std": name, "metrics": {metric: [no_inst, empty_pred, empty_ref, normal]}}"""
    if cfg is None:
        return None
    d = {}
    for m, (ni, ep, er, no) in cfg["metrics"].items():
        d[Metric[m]] = MetricZeroTPEdgeCaseHandling(
            no_instances_result=ECR[ni], empty_prediction_result=ECR[ep], empty_reference_result=ECR[er], normal=ECR[no]
        )
    return EdgeCaseHandler(listmetric_zeroTP_handling=d, empty_list_std=ECR[cfg.get("std", "NAN")])


def make_evaluator(itype, matcher=None, backend="none", instance_metrics=("DSC", "IOU", "ASSD", "RVD"), global_metrics=("DSC",),
                   decision=None, handler=None, groups=None, **flags):
    kw = dict(
        expected_input=ITYPE[itype],
        instance_approximator=make_approximator(backend),
        instance_matcher=make_matcher(matcher),
        instance_metrics=[Metric[m] for m in instance_metrics],
        global_metrics=[Metric[m] for m in global_metrics],
        decision_metric=None if decision is None else Metric[decision[0]],
        decision_threshold=None if decision is None else decision[1],
        edge_case_handler=make_handler(handler),
        segmentation_class_groups=groups,
    )
    kw.update(flags)
    return Panoptica_Evaluator(**kw)


def val(x):
    """normalise a reported value to a plain python object"""
    if x is None:
        return None
    if isinstance(x, (bool, np.bool_)):
        return bool(x)
    if isinstance(x, (int, np.integer)):
        return int(x)
    if isinstance(x, (float, np.floating)):
        return float(x)
    return x


def getv(res, name):
    try:
        return val(getattr(res, name))
    except Exception as e:  # MetricCouldNotBeComputedException and friends
        return ("ERR", type(e).__name__)


def get_list(res, m):
    try:
        lst = res.get_list_metric(Metric[m], MetricMode.ALL)
        return None if lst is None else [val(v) for v in lst]
    except Exception as e:
        return ("ERR", type(e).__name__)


COUNT_KEYS = ("num_ref_instances", "num_pred_instances", "tp", "fp", "fn", "rq")
GLOBAL_KEYS = ("global_bin_dsc", "global_bin_iou", "global_bin_assd", "global_bin_rvd", "global_bin_cldsc")


def observe(res, metrics=("IOU", "DSC", "ASSD", "RVD"), with_global=True):
    o = {k: getv(res, k) for k in COUNT_KEYS}
    for m in metrics:
        o["list_" + m] = get_list(res, m)
        sq, std, pq = SQ_ATTR[m]
        o["sq_" + m] = getv(res, sq)
        o["std_" + m] = getv(res, std)
        if pq:
            o["pq_" + m] = getv(res, pq)
    if with_global:
        for k in GLOBAL_KEYS:
            o[k] = getv(res, k)
    return o


def rows_of(o, metrics):
    """per-TP tuples (values of one instance stay together), as a sorted multiset"""
    lists = [o["list_" + m] for m in metrics]
    if any(not isinstance(l, list) for l in lists):
        return None
    n = {len(l) for l in lists}
    if len(n) > 1:
        return "RAGGED"
    return sorted(zip(*lists))


def same_value(a, b, exact=False, rel=1e-9, abs_=1e-12):
    if isinstance(a, tuple) or isinstance(b, tuple):
        return a == b
    if a is None or b is None:
        return a is None and b is None
    if isinstance(a, float) and math.isnan(a) or isinstance(b, float) and math.isnan(b):
        return isinstance(a, float) and isinstance(b, float) and math.isnan(a) and math.isnan(b)
    if exact:
        return a == b
    if isinstance(a, (int, float)) and isinstance(b, (int, float)):
        if math.isinf(a) or math.isinf(b):
            return a == b
        return abs(a - b) <= max(abs_, rel * max(abs(a), abs(b)))
    return a == b


def same_obs(a, b, ignore=()):
    """compare two observation dicts; lists as multisets of values; returns list of differing keys"""
    diff = []
    for k in a:
        if k in ignore:
            continue
        x, y = a[k], b.get(k)
        if isinstance(x, list) and isinstance(y, list):
            if len(x) != len(y) or any(not same_value(p, q) for p, q in zip(sorted(x), sorted(y))):
                diff.append(k)
        elif not same_value(x, y):
            diff.append(k)
    return diff
