"""CLI:  ./check <ID> [--tier quick|thorough] [--replay <file>] | --list | --selftest"""
from __future__ import annotations

import argparse
import importlib
import os
import sys


def main(argv=None):
    ap = argparse.ArgumentParser()
    ap.add_argument("id", nargs="?")
    ap.add_argument("--tier", default=os.environ.get("VERIF_TIER", "quick"), choices=["quick", "thorough"])
    ap.add_argument("--replay")
    ap.add_argument("--list", action="store_true")
    a = ap.parse_args(argv)
    seed = int(os.environ.get("VERIF_SEED", "0") or 0)

    from . import seams

    if a.list:
        d = os.path.join(os.path.dirname(__file__), "props")
        for f in sorted(os.listdir(d)):
            if f.startswith("C") and f.endswith(".py"):
                print(f[:-3])
        return 0
    if not a.id:
        ap.error("property id required")
    try:
        seams.install()
    except Exception as e:  # the tree does not even import: harness error, not a verdict
        seams.say(f"HARNESS-ERROR cannot import panoptica from {seams.REPO}: {e!r}")
        return 2
    from . import engine

    try:
        prop = importlib.import_module(f"pmc.props.{a.id}")
        if a.replay:
            return engine.replay(prop, a.replay)
        return engine.run(prop, a.tier, seed)
    except Exception as e:  # a crash of the harness itself is never a verdict
        import traceback

        seams.say(f"HARNESS-ERROR property={a.id}: {e!r}\n{traceback.format_exc()[-3000:]}")
        return 2


if __name__ == "__main__":
    sys.exit(main())
