"""Helpers for the metamorphic checks (C09, C10, C11, C12): run the evaluator, compare observations, uniqueness guard."""
from __future__ import annotations

import numpy as np

from . import e2e
from . import refmodel as rm
from .lib import make_evaluator, observe, same_value

ALLM = ("IOU", "DSC", "ASSD", "RVD")
GLOB = ("DSC", "IOU", "ASSD", "RVD")
GKEYS = ("global_bin_dsc", "global_bin_iou", "global_bin_assd", "global_bin_rvd")


def run(itype, matcher, backend, pred, ref, decision=None, groups=None, global_metrics=GLOB):
    """returns ('OK', obs, steps) or ('EXC', exception)"""
    try:
        ev = make_evaluator(itype, matcher=matcher, backend=backend, decision=decision, global_metrics=global_metrics, groups=groups)
        out = ev.evaluate(pred, ref, verbose=False)
        if groups is None:
            res, steps = out["ungrouped"]
            return "OK", observe(res), steps
        return "OK", {g: observe(r[0]) for g, r in out.items()}, None
    except Exception as e:
        return "EXC", e, None


def rowkey(row):
    return tuple(-1e300 if v is None else round(v, 7) if isinstance(v, float) else v for v in row)


def diff_obs(a, b, rvd_map=None, swap_fp_fn=False, skip=()):
    """keys on which observation b differs from a (lists as multisets of per-instance rows)"""
    d = []
    for k in ("tp", "num_ref_instances", "num_pred_instances", "fp", "fn"):
        kb = k
        if swap_fp_fn:
            kb = {"fp": "fn", "fn": "fp", "num_ref_instances": "num_pred_instances", "num_pred_instances": "num_ref_instances"}.get(k, k)
        if a[k] != b[kb]:
            d.append(k)
    if not same_value(a["rq"], b["rq"], rel=1e-12):
        d.append("rq")
    la = [a["list_" + m] for m in ALLM]
    lb = [b["list_" + m] for m in ALLM]
    if any(not isinstance(l, list) for l in la + lb):
        if la != lb:
            d.append("lists")
    else:
        ra = sorted(zip(*la), key=rowkey)
        if rvd_map is not None:
            lb = [lb[0], lb[1], lb[2], [rvd_map(v) for v in lb[3]]]
        rb = sorted(zip(*lb), key=rowkey)
        if len(ra) != len(rb):
            d.append("list_length")
        else:
            for x, y in zip(ra, rb):
                for m, u, v in zip(ALLM, x, y):
                    if not same_value(u, v, rel=1e-9, abs_=1e-12):
                        d.append("list_" + m)
    keys = ["sq_IOU", "std_IOU", "pq_IOU", "sq_DSC", "std_DSC", "pq_DSC", "sq_ASSD", "std_ASSD"]
    if rvd_map is None:
        keys += ["sq_RVD", "std_RVD"]
    if not swap_fp_fn:
        keys += list(GKEYS)
    else:
        keys += ["global_bin_dsc", "global_bin_iou", "global_bin_assd"]
    for k in keys:
        if k in skip:
            continue
        if not same_value(a.get(k), b.get(k), rel=1e-9, abs_=1e-12):
            d.append(k)
    return sorted(set(d))


def unique_matching(model: e2e.Model, metric):
    """True iff no two competing candidate pairs (sharing a prediction or a reference) have equal score"""
    c = model.rp.cands
    for i in range(len(c)):
        for j in range(i + 1, len(c)):
            (p1, r1), (p2, r2) = c[i], c[j]
            if (p1 == p2 or r1 == r2) and rm.close(model.rp.score(metric, p1, r1), model.rp.score(metric, p2, r2)):
                return False
    return True


def in_admissible(model: e2e.Model, matcher, decision, obs):
    """for the one-to-one threshold matcher: is the observation one of the admissible reference results?"""
    asgs, capped = model.assignments(matcher)
    for a in asgs:
        if not e2e.cmp_expected(obs, model.expected(a, tuple(decision) if decision else None)):
            return True
    return capped
