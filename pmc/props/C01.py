"""C01 - reported panoptic results equal the published definitions, end to end.

Every label-map pair of the stated small grids goes through the real Panoptica_Evaluator.evaluate for every input
type and a configuration product (matching metric x every threshold class, decision metric x every threshold class,
CCA backends); the result must be one of the results the reference model admits (all orderings of tied candidates);
a singleton admissible set is the "uniquely determined" clause.
"""
from __future__ import annotations

import numpy as np

from .. import e2e
from .. import refmodel as rm
from .. import scopes as sc
from ..lib import make_evaluator, observe

ID = "C01"
LEVEL = "model_checking"
RULE = (
    "quick: all pairs of G1(4,2) x UNMATCHED x {IoU,Dice,ASSD} x threshold classes and x MATCHED x decision in {none,IoU,Dice,ASSD} x threshold classes; "
    "G1(4,2) x 27 refs x UNMATCHED(all candidates eligible) x decision metric x threshold classes; G2(2,2,2) x 27 refs and binary G3(2,2,2) x 16 refs x SEMANTIC x "
    "backend in {default,cc3d,scipy} x IoU threshold classes (+ Dice decision); RLE(2) volumes; one SEMANTIC evaluator (default backend) reused after a 3-D / 1-D input for G2(2,2,2) x 9 refs; 5 / 16 / 17 / 33 / 255 / 256 / 257 instances (thorough 1..69, 1000) with overlaps 4/4, 3/4, 2/4 x input type; SEMANTIC class values 255, 256, 257, 65535, 65536, 65537 on 3 bases (2-D, 3-D) x side {pred, ref, both} x 3 backends. thorough: G1(5,2)^2, G2(2,2,2)^2, G2(2,3,2) x 81, G3(2,2,2,1)^2, G3(2,2,3,1) x 32, RLE(3) with the same products. "
    "non-trivial = both sides non-empty and at least one candidate pair; distinct by (arrays, input type)"
)
ASSUMPTIONS = [
    "tied candidates (scores within 1e-9 relative): every ordering is admissible; the library must produce one of them",
    "exact-hit thresholds are used only where the library's own score is bit-identical to the reference value (ASSD: integral distances)",
    "ASSD, means, std, pq compared to 1e-9 relative; IoU/Dice/RVD to 1e-12",
    "zero-TP aggregates (sq/std when tp == 0) are judged by C08, not here",
]
BUDGET = {"quick": 240, "thorough": 2400}


def blocks(tier):
    B = []

    def add(kind, shape, k, nref, per):
        n = sc.grid_count(shape, k)
        for lo, hi in sc.ranges(n, per):
            B.append((kind, shape, k, nref, lo, hi))

    if tier == "quick":
        add("um", (4,), 2, None, 1)
        add("dec", (4,), 2, 27, 3)
        add("sem", (2, 2), 2, 27, 3)
        add("sem", (2, 2, 2), 1, 16, 8)
        for lo, hi in sc.ranges(sc.rle_count(2), 100):
            B.append(("rle", 2, lo, hi))
        B.append(("reuse", 9))
        B.append(("many", (5, 16, 17, 33)))
        for n in (255, 256, 257):
            B.append(("many", (n,)))
        B.append(("semval",))
    else:
        B.append(("reuse", 27))
        B.append(("many", tuple(range(1, 70))))
        for n in (255, 256, 257, 1000):
            B.append(("many", (n,)))
        B.append(("semval",))
        add("um", (5,), 2, None, 1)
        add("um", (2, 2), 2, None, 1)
        add("um", (2, 3), 2, 81, 1)
        add("dec", (5,), 2, 81, 1)
        add("sem", (2, 2), 2, None, 1)
        add("sem", (2, 3), 2, 81, 1)
        add("sem", (2, 2, 2), 1, None, 2)
        add("sem", (2, 2, 3), 1, 32, 8)
        add("sem", (5,), 2, 81, 1)
        for lo, hi in sc.ranges(sc.rle_count(3), 300):
            B.append(("rle", 3, lo, hi))
    return B


def ref_indices(n, nref):
    if nref is None or nref >= n:
        return list(range(n))
    step = n / nref
    return sorted({int(i * step + step / 2) % n for i in range(nref)} | {n - 1})


def run_block(block, acc):
    kind = block[0]
    if kind == "rle":
        _, s, lo, hi = block
        for i in range(lo, hi):
            run_case({"kind": "rle", "s": s, "i": i}, acc)
        return
    if kind == "many":
        for n in block[1]:
            for itype in ("MATCHED", "UNMATCHED", "SEMANTIC"):
                run_case({"kind": "many", "n": n, "itype": itype}, acc)
        return
    if kind == "semval":
        for v in SEMVALS:
            for b in range(len(SEMVAL_BASES)):
                for backend in ("default", "cc3d", "scipy"):
                    run_case({"kind": "semval", "v": v, "b": b, "backend": backend}, acc)
        return
    if kind == "reuse":
        n = sc.grid_count((2, 2), 2)
        for first in ("3d", "1d"):
            for i in range(n):
                for j in ref_indices(n, block[1]):
                    run_case({"kind": "reuse", "first": first, "pi": i, "ri": j}, acc)
        return
    _, shape, k, nref, lo, hi = block
    n = sc.grid_count(shape, k)
    for i in range(lo, hi):
        for j in ref_indices(n, nref):
            run_case({"kind": kind, "shape": list(shape), "k": k, "pi": i, "ri": j}, acc)


def configs_for(kind, pred, ref, acc, case):
    """the configuration product of one pair: list of (itype, matcher, backend, decision)"""
    out = []
    shape = pred.shape
    if kind == "um":
        mdl = e2e.Model(pred, ref, "UNMATCHED")
        for metric in ("IOU", "DSC", "ASSD"):
            for t in e2e.guarded_thresholds(mdl, metric, mdl.rp.cands, acc, shape):
                out.append(("UNMATCHED", ["thr", metric, t, False], "none", None, mdl))
        mm = e2e.Model(pred, ref, "MATCHED")
        asg = sorted(mm.matched_assignment())
        out.append(("MATCHED", None, "none", None, mm))
        for metric in ("IOU", "DSC", "ASSD"):
            for t in e2e.guarded_thresholds(mm, metric, asg, acc, shape):
                out.append(("MATCHED", None, "none", [metric, t], mm))
    elif kind == "dec":
        mdl = e2e.Model(pred, ref, "UNMATCHED")
        for metric in ("IOU", "DSC", "ASSD"):
            for t in e2e.guarded_thresholds(mdl, metric, mdl.rp.cands, acc, shape):
                out.append(("UNMATCHED", ["thr", "IOU", 0.0, False], "none", [metric, t], mdl))
    elif kind == "sem":
        for backend in ("default", "cc3d", "scipy"):
            mdl = e2e.Model(pred, ref, "SEMANTIC", backend)
            thrs = e2e.guarded_thresholds(mdl, "IOU", mdl.rp.cands, acc, shape)
            for t in thrs:
                out.append(("SEMANTIC", ["thr", "IOU", t, False], backend, None, mdl))
            if thrs:
                out.append(("SEMANTIC", ["thr", "IOU", thrs[0], False], backend, ["DSC", 0.75], mdl))
    return out


def judge(acc, case, pred, ref, itype, matcher, backend, decision, mdl, sig="C01"):
    cfg = {"itype": itype, "matcher": matcher, "backend": backend, "decision": decision}
    c2 = {**case, "cfg": cfg}
    acc.step()
    try:
        ev = make_evaluator(itype, matcher=matcher, backend=backend, decision=decision)
        out = ev.evaluate(pred.copy(), ref.copy(), verbose=False)
        res, steps = out["ungrouped"]
        obs = observe(res, with_global=False)
    except Exception as e:
        acc.violation(f"{sig}:raised:{type(e).__name__}:{itype}", c2, f"{cfg}: evaluate raised {e!r}")
        return None
    e2e.state_hashes(acc, steps)
    asgs, capped = mdl.assignments(matcher)
    if capped:
        acc.count("tie_capped")
    exps = [mdl.expected(a, tuple(decision) if decision else None) for a in asgs]
    diffs = [e2e.cmp_expected(obs, ex) for ex in exps]
    acc.outcome(obs["tp"], obs["fp"], obs["fn"], repr(obs["list_IOU"]))
    if any(not d for d in diffs):
        acc.ok()
        if len(asgs) == 1:
            acc.count("uniquely_determined")
        else:
            acc.count("several_admissible")
        return obs
    if capped:
        acc.count("tie_capped_unjudged")
        return obs
    best = min(diffs, key=len)
    ex = exps[diffs.index(best)]
    what = "counts" if any(k in best for k in ("tp", "fp", "fn", "num_ref_instances", "num_pred_instances")) else "values"
    dk = "decision" if decision else "nodecision"
    acc.violation(
        f"{sig}:{what}:{itype}:{dk}", c2,
        f"{cfg}: library result differs from every admissible reference result in {best}; library tp/fp/fn={obs['tp']}/{obs['fp']}/{obs['fn']} lists IOU={obs['list_IOU']} DSC={obs['list_DSC']} ASSD={obs['list_ASSD']} RVD={obs['list_RVD']} sq={obs['sq_IOU']} rq={obs['rq']} pq={obs['pq_IOU']}; "
        f"reference tp/fp/fn={ex['tp']}/{ex['fp']}/{ex['fn']} rows={ex['rows']} rq={ex['rq']} ({len(asgs)} admissible matchings)",
    )
    return obs


def arrays_of(case):
    if case["kind"] == "rle":
        p, r, segs = sc.rle_pair(case["i"], case["s"])
        return p, r
    if case["kind"] == "arr":
        return sc.arr_from_case(case["pred"]), sc.arr_from_case(case["ref"])
    shape = tuple(case["shape"])
    return sc.grid(case["pi"], shape, case["k"]), sc.grid(case["ri"], shape, case["k"])


REUSE_FIRST = {"3d": (np.array([[[1, 0], [0, 0]], [[0, 0], [0, 1]]], dtype=np.uint8), np.array([[[1, 0], [0, 2]], [[0, 0], [0, 1]]], dtype=np.uint8)),
               "1d": (np.array([1, 1, 0, 2, 0, 1], dtype=np.uint8), np.array([1, 0, 0, 2, 2, 1], dtype=np.uint8))}


def _reuse_case(case, acc):
    """ONE evaluator (default CCA backend) evaluates a map of another dimensionality first, then the 2-D case: the second result
    must still be what the definitions give"""
    pred, ref = sc.grid(case["pi"], (2, 2), 2), sc.grid(case["ri"], (2, 2), 2)
    acc.case("reuse", case["first"], case["pi"], case["ri"])
    matcher = ["thr", "IOU", 0.5, False]
    mdl = e2e.Model(pred, ref, "SEMANTIC", "default")
    acc.step(2)
    try:
        ev = make_evaluator("SEMANTIC", matcher=matcher, backend="default")
        ev.evaluate(REUSE_FIRST[case["first"]][0].copy(), REUSE_FIRST[case["first"]][1].copy(), verbose=False)
        res, steps = ev.evaluate(pred.copy(), ref.copy(), verbose=False)["ungrouped"]
        obs = observe(res, with_global=False)
    except Exception as e:
        acc.violation(f"C01:reuse_raised:{type(e).__name__}", case, f"evaluator reused after a {case['first']} input: evaluate raised {e!r}")
        return
    acc.state("reuse", case["first"], case["pi"], case["ri"])
    if mdl.rp.cands:
        acc.nontriv("reuse", case["first"], case["pi"], case["ri"])
    asgs, capped = mdl.assignments(matcher)
    if any(not e2e.cmp_expected(obs, mdl.expected(a, None)) for a in asgs) or capped:
        acc.ok()
    else:
        acc.violation("C01:reused_evaluator:SEMANTIC", case, f"evaluator first used on a {case['first']} map, then pred={pred.tolist()} ref={ref.tolist()}: result tp/fp/fn={obs['tp']}/{obs['fp']}/{obs['fn']} n_pred={obs['num_pred_instances']} n_ref={obs['num_ref_instances']} is not an admissible result of the definitions")


# semantic class values at the edges of the 8/16-bit ranges (the approximator chooses a dtype from the largest value)
SEMVALS = (255, 256, 257, 65535, 65536, 65537)
SEMVAL_BASES = [
    ([[1, 1, 0, 0], [0, 0, 2, 2], [2, 0, 0, 1]], [[1, 1, 1, 0], [0, 2, 2, 0], [2, 2, 0, 0]]),
    ([[2, 2, 0, 1], [0, 0, 0, 1]], [[2, 2, 0, 0], [0, 1, 0, 1]]),
    ([[[2, 0], [0, 0]], [[0, 0], [0, 2]]], [[[2, 0], [0, 1]], [[0, 0], [0, 2]]]),
]


def _semval_case(case, acc):
    """class 2 of the base carries the value v (class 1 stays 1), on the prediction side, the reference side and both"""
    v, b, backend = case["v"], case["b"], case["backend"]
    acc.case("semval", v, b, backend)
    bp, br = (np.array(x, dtype=np.uint32) for x in SEMVAL_BASES[b])
    dt = np.uint16 if v <= 65535 else np.uint32
    for side in ("pred", "ref", "both"):
        pred = np.where(bp == 2, v, bp).astype(dt) if side != "ref" else bp.astype(dt)
        ref = np.where(br == 2, v, br).astype(dt) if side != "pred" else br.astype(dt)
        matcher = ["thr", "IOU", 0.5, False]
        judge(acc, {**case, "side": side}, pred, ref, "SEMANTIC", matcher, backend, None, e2e.Model(pred, ref, "SEMANTIC", backend))
    acc.nontriv("semval", v, b, backend)


def _many_case(case, acc):
    """n instances (more than the usual handful, also more than worker processes) with varying overlaps, judged by the reference model"""
    n, itype = case["n"], case["itype"]
    acc.case("many", n, itype)
    ref = np.zeros(7 * n + 2, dtype=np.uint16)
    pred = np.zeros(7 * n + 2, dtype=np.uint16)
    for k in range(n):
        lab = 1 if itype == "SEMANTIC" else k + 1
        ref[7 * k + 1 : 7 * k + 5] = lab
        lo = 7 * k + 1 + (k % 3)  # overlaps 4, 3, 2 of 4 voxels: IoU 1, 3/5, 1/3
        pred[lo : lo + 4] = lab
    matcher = None if itype == "MATCHED" else ["thr", "IOU", 0.5, False]
    backend = "default" if itype == "SEMANTIC" else "none"
    judge(acc, case, pred, ref, itype, matcher, backend, None, e2e.Model(pred, ref, itype, backend))
    acc.nontriv("many", n, itype)


def run_case(case, acc):
    if case["kind"] == "semval":
        return _semval_case(case, acc)
    if case["kind"] == "many":
        return _many_case(case, acc)
    if case["kind"] == "reuse":
        return _reuse_case(case, acc)
    pred, ref = arrays_of(case)
    kind = case["kind"]
    acc.case(kind, case.get("shape"), case.get("k"), case.get("pi"), case.get("ri"), case.get("s"), case.get("i"))
    if kind == "rle":
        return _rle_case(case, acc, pred, ref)
    if "cfg" in case:
        c = case["cfg"]
        mdl = e2e.Model(pred, ref, c["itype"], c["backend"])
        judge(acc, {k: v for k, v in case.items() if k != "cfg"}, pred, ref, c["itype"], c["matcher"], c["backend"], c["decision"], mdl)
        return
    cfgs = configs_for(kind, pred, ref, acc, case)
    if np.any(pred) and np.any(ref) and cfgs and cfgs[0][4].rp.cands:
        acc.nontriv(kind, pred.shape, pred.tobytes(), ref.tobytes())
    if acc.evaluations % 701 == 1:
        acc.sample({"kind": kind, "pred": pred.tolist(), "ref": ref.tolist(), "configs": [[c[0], c[1], c[2], c[3]] for c in cfgs][:12]})
    if kind != "sem" and not cfgs:
        # no candidate pair at all: still run the default configurations once
        for itype, matcher in (("UNMATCHED", ["thr", "IOU", 0.5, False]), ("MATCHED", None)):
            judge(acc, case, pred, ref, itype, matcher, "none", None, e2e.Model(pred, ref, itype))
        return
    if kind == "sem" and not cfgs:
        for backend in ("default", "cc3d", "scipy"):
            judge(acc, case, pred, ref, "SEMANTIC", ["thr", "IOU", 0.5, False], backend, None, e2e.Model(pred, ref, "SEMANTIC", backend))
        return
    for itype, matcher, backend, decision, mdl in cfgs:
        judge(acc, case, pred, ref, itype, matcher, backend, decision, mdl)


def _rle_case(case, acc, pred, ref):
    """large volumes across counter-width boundaries: overlap metrics only (ASSD on 10^5 voxels is too slow for the
    brute-force reference), expected values from segment arithmetic"""
    from ..lib import Metric

    _, _, segs = sc.rle_pair(case["i"], case["s"])
    plabs = sorted({p for p, r, l in segs if p})
    rlabs = sorted({r for p, r, l in segs if r})
    cnt = {}
    for p, r, l in segs:
        cnt[(p, r)] = cnt.get((p, r), 0) + l
    vp = {p: sum(l for (a, b), l in cnt.items() if a == p) for p in plabs}
    vr = {r: sum(l for (a, b), l in cnt.items() if b == r) for r in rlabs}
    c2 = dict(case)
    acc.step()
    try:
        ev = make_evaluator("MATCHED", instance_metrics=("DSC", "IOU", "RVD"))
        res = ev.evaluate(pred.copy(), ref.copy(), verbose=False)["ungrouped"][0]
        obs = observe(res, metrics=("IOU", "DSC", "RVD"), with_global=False)
    except Exception as e:
        acc.violation("C01:rle:raised", c2, f"evaluate raised {e!r}")
        return
    both = [l for l in plabs if l in rlabs]
    rows = []
    for l in both:
        i = cnt.get((l, l), 0)
        rows.append({"IOU": i / (vp[l] + vr[l] - i), "DSC": 2 * i / (vp[l] + vr[l]), "RVD": (vp[l] - vr[l]) / vr[l]})
    exp = rm.summarize(len(rows), len(plabs), len(rlabs), rows, ("IOU", "DSC", "RVD"))
    d = e2e.cmp_expected(obs, exp, metrics=("IOU", "DSC", "RVD"))
    acc.state("rle", case["s"], case["i"])
    if both:
        acc.nontriv("rle", case["s"], case["i"])
    if d:
        acc.violation("C01:rle:values", c2, f"RLE volumes {segs}: library differs in {d}: lists IOU={obs['list_IOU']} DSC={obs['list_DSC']} RVD={obs['list_RVD']} expected rows {rows}")
    else:
        acc.ok()
