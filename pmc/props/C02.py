"""C02 - result bookkeeping: tp/fp/fn, per-TP lists and sq/rq/pq are mutually consistent.

(a) every result produced through evaluate() on complete contingency-table scopes x input type x matcher kind
(threshold, threshold+many-to-one, merge) x threshold classes x decision metric/threshold; (b) every directly constructed
PanopticaResult for all (num_ref, num_pred, tp) up to 4 and all value lists over a small alphabet. Oracle: the
algebraic identities of the statement only.
"""
from __future__ import annotations

import itertools
import math

import numpy as np

from .. import e2e
from .. import refmodel as rm
from .. import scopes as sc
from ..lib import ECR, EdgeCaseHandler, Metric, make_evaluator, observe

ID = "C02"
LEVEL = "model_checking"
RULE = (
    "(a) all tables of CT(2,2,2) and CT(3,2,1) (thorough: + CT(2,3,1), CT(2,2,3), G1(5,2) x 81 with ASSD matching) x UNMATCHED x {one-to-one threshold matcher: every IoU "
    "threshold class without decision + the most lenient class x decision in {none, Dice .5, ASSD .5, ASSD 0, IoU at every class}; many-to-one and merge matcher at the most lenient and the "
    "median class x decision in {none, Dice .5, ASSD .5}} and x MATCHED x the same decisions (also with an unused matcher of the decision's metric and an unused approximator configured; instance-metric lists consisting of the decision metric only / another metric + the decision metric / [IoU], [RVD], [ASSD, Dice] without decision); SEMANTIC on G2(2,2,2) x 27 refs x {default, cc3d} x 4 threshold classes x 3 decisions; "
    "(b) all PanopticaResult(num_ref, num_pred in 0..4, tp <= min, lists of length tp over {0,.25,.5,1} / {0,.5,2}) x 5 empty-list-std values. "
    "non-trivial = at least one instance fails the decision threshold, or a many-to-one/merge assignment merged a group, or a direct result with >= 2 distinct values; distinct by (arrays, configuration)"
)
ASSUMPTIONS = [
    "the number of predicted instances after a many-to-one / merge match counts a merged group once (the library's matched map); for one-to-one configurations it must equal the input count",
    "aggregates for tp == 0 are the edge-case handler's business (C08) and are not judged here",
]
BUDGET = {"quick": 240, "thorough": 2000}
ALLM = ("IOU", "DSC", "ASSD", "RVD")


def blocks(tier):
    B = []
    cts = [(2, 2, 2), (3, 2, 1)] if tier == "quick" else [(2, 2, 2), (3, 2, 1), (2, 3, 1), (2, 2, 3)]
    for P, R, c in cts:
        n = sc.ct_count(P, R, c)
        for lo, hi in sc.ranges(n, 40):
            B.append(("ct", P, R, c, lo, hi))
    n = sc.grid_count((2, 2), 2)
    for lo, hi in sc.ranges(n, 3):
        B.append(("sem", (2, 2), 2, 27, lo, hi))
    if tier == "thorough":
        n = sc.grid_count((5,), 2)
        for lo, hi in sc.ranges(n, 2):
            B.append(("geo", (5,), 2, 81, lo, hi))
    for nr in range(5):
        for npd in range(5):
            B.append(("direct", nr, npd))
    return B


def run_block(block, acc):
    if block[0] == "ct":
        _, P, R, c, lo, hi = block
        for i in range(lo, hi):
            run_case({"kind": "ct", "P": P, "R": R, "c": c, "i": i}, acc)
    elif block[0] in ("sem", "geo"):
        from .C01 import ref_indices

        kind, shape, k, nref, lo, hi = block
        n = sc.grid_count(shape, k)
        for i in range(lo, hi):
            for j in ref_indices(n, nref):
                run_case({"kind": kind, "shape": list(shape), "k": k, "pi": i, "ri": j}, acc)
    else:
        _, nr, npd = block
        for tp in range(min(nr, npd) + 1):
            for li in range(4**tp):
                for std in ("NAN", "INF", "ZERO", "ONE", "NONE"):
                    run_case({"kind": "direct", "n_ref": nr, "n_pred": npd, "tp": tp, "li": li, "std": std}, acc)


def identities(acc, case, tag, obs, sig="C02", overlap_ranges=True):
    """the identities of the statement on one observation dict; returns True if all hold"""
    ok = True

    def bad(name, msg):
        nonlocal ok
        ok = False
        acc.violation(f"{sig}:{name}", case, f"{tag}: {msg}")

    tp, fp, fn, npd, nrf = obs["tp"], obs["fp"], obs["fn"], obs["num_pred_instances"], obs["num_ref_instances"]
    if not all(isinstance(x, int) for x in (tp, fp, fn, npd, nrf)):
        bad("counts_not_int", f"counts {tp, fp, fn, npd, nrf}")
        return False
    if tp + fp != npd:
        bad("tp_plus_fp", f"tp+fp={tp}+{fp} != num_pred_instances={npd}")
    if tp + fn != nrf:
        bad("tp_plus_fn", f"tp+fn={tp}+{fn} != num_ref_instances={nrf}")
    if tp < 0 or fp < 0 or fn < 0:
        bad("negative_count", f"tp/fp/fn={tp}/{fp}/{fn}")
    lists = {m: obs.get("list_" + m) for m in ALLM if "list_" + m in obs}
    for m, l in lists.items():
        if not isinstance(l, list):
            bad("list_missing", f"list of {m} is {l}")
        elif len(l) != tp:
            bad("list_length", f"list of {m} has {len(l)} entries but tp={tp}")
    exp_rq = (tp / (tp + 0.5 * fp + 0.5 * fn)) if tp > 0 else (0.0 if npd + nrf > 0 else math.nan)
    if not rm.close(obs["rq"], exp_rq, rel=1e-12) if isinstance(obs["rq"], float) else True:
        bad("rq", f"rq={obs['rq']} expected {exp_rq}")
    if tp > 0:
        for m, l in lists.items():
            if not isinstance(l, list) or len(l) == 0:
                continue
            mu, sd = rm.mean(l), rm.pstd(l)
            if not rm.close(obs["sq_" + m], mu):
                bad("sq_not_mean", f"sq_{m}={obs['sq_' + m]} but mean(list)={mu} list={l}")
            if not rm.close(obs["std_" + m], sd, abs_=1e-9):
                bad("std_not_pstd", f"std_{m}={obs['std_' + m]} but population std={sd} list={l}")
            if "pq_" + m in obs and isinstance(obs["sq_" + m], float) and isinstance(obs["rq"], float):
                if not rm.close(obs["pq_" + m], obs["sq_" + m] * obs["rq"]):
                    bad("pq_not_sq_rq", f"pq_{m}={obs['pq_' + m]} but sq*rq={obs['sq_' + m] * obs['rq']}")
        if overlap_ranges:
            for m in ("IOU", "DSC"):
                l = lists.get(m)
                if isinstance(l, list) and any(not (0.0 <= v <= 1.0) for v in l):
                    bad("overlap_out_of_range", f"{m} values {l}")
            for k in ("rq", "pq_IOU", "pq_DSC"):
                v = obs.get(k)
                if isinstance(v, float) and not (0.0 <= v <= 1.0 + 1e-12):
                    bad("out_of_range", f"{k}={v}")
            if isinstance(obs.get("sq_DSC"), float) and isinstance(obs.get("sq_IOU"), float) and obs["sq_DSC"] < obs["sq_IOU"] - 1e-12:
                bad("sq_dsc_below_sq", f"sq_dsc={obs['sq_DSC']} < sq={obs['sq_IOU']}")
    return ok


def run_case(case, acc):
    kind = case["kind"]
    if kind == "direct":
        return _direct(case, acc)
    if kind == "ct":
        pred, ref = sc.ct_arrays(sc.ct_table(case["i"], case["P"], case["R"], case["c"]))
    elif kind == "arr":
        pred, ref = sc.arr_from_case(case["pred"]), sc.arr_from_case(case["ref"])
    else:
        shape = tuple(case["shape"])
        pred, ref = sc.grid(case["pi"], shape, case["k"]), sc.grid(case["ri"], shape, case["k"])
    acc.case(kind, case.get("P"), case.get("R"), case.get("c"), case.get("i"), case.get("shape"), case.get("pi"), case.get("ri"))
    if "cfg" in case:
        cfgs = [case["cfg"]]
    else:
        cfgs = _configs(kind, pred, ref, acc)
    if acc.evaluations % 601 == 1:
        acc.sample({"pred": pred.tolist(), "ref": ref.tolist(), "n_configs": len(cfgs), "configs": cfgs[:6]})
    for cfg in cfgs:
        _pipeline(acc, {k: v for k, v in case.items() if k != "cfg"}, pred, ref, cfg)


def _configs(kind, pred, ref, acc):
    shape = pred.shape
    out = []
    if kind == "sem":
        for backend in ("default", "cc3d"):
            mdl = e2e.Model(pred, ref, "SEMANTIC", backend)
            for t in e2e.guarded_thresholds(mdl, "IOU", mdl.rp.cands, acc, shape)[:4] or [0.5]:
                for dec in (None, ["DSC", 0.7], ["IOU", 0.6]):
                    out.append({"itype": "SEMANTIC", "matcher": ["thr", "IOU", t, False], "backend": backend, "decision": dec})
        return out
    mdl = e2e.Model(pred, ref, "UNMATCHED")
    mmetric = "ASSD" if kind == "geo" else "IOU"
    thrs = e2e.guarded_thresholds(mdl, mmetric, mdl.rp.cands, acc, shape) or [0.5]
    decs = [None, ["DSC", 0.5], ["ASSD", 0.5], ["ASSD", 0.0]] + [["IOU", t] for t in e2e.guarded_thresholds(mdl, "IOU", mdl.rp.cands, acc, shape)]
    mid = {thrs[0], thrs[len(thrs) // 2]}
    for t in thrs:
        for m in (["thr", mmetric, t, False], ["thr", mmetric, t, True], ["merge", mmetric, t]):
            o2o = m[0] == "thr" and not m[3]
            if o2o:
                ds = decs if t == thrs[0] else decs[:1]
            else:
                ds = decs[:4] if t in mid else []
            for dec in ds:
                out.append({"itype": "UNMATCHED", "matcher": m, "backend": "none", "decision": dec})
    mm = e2e.Model(pred, ref, "MATCHED")
    asg = sorted(mm.matched_assignment())
    iou_first = e2e.guarded_thresholds(mm, "IOU", asg, None, shape)[:2]
    for dec in [None, ["DSC", 0.5], ["ASSD", 0.5], ["ASSD", 0.0], ["DSC", 1.0]] + [["IOU", t] for t in e2e.guarded_thresholds(mm, "IOU", asg, acc, shape)]:
        out.append({"itype": "MATCHED", "matcher": None, "backend": "none", "decision": dec})
        # matched input with a (then unused) matcher and approximator configured, as users who pass every component do
        if dec is not None:
            for um in (["thr", dec[0], 0.5, False], ["merge", dec[0], dec[1]]):
                out.append({"itype": "MATCHED", "matcher": um, "backend": "default", "decision": dec})
        # short instance-metric lists: only the decision metric, and the decision metric last of two
        if dec is not None and (dec[0] != "IOU" or dec[1] in iou_first):
            out.append({"itype": "MATCHED", "matcher": None, "backend": "none", "decision": dec, "imetrics": [dec[0]]})
            out.append({"itype": "MATCHED", "matcher": None, "backend": "none", "decision": dec, "imetrics": ["RVD" if dec[0] != "RVD" else "IOU", dec[0]]})
            out.append({"itype": "UNMATCHED", "matcher": ["thr", mmetric, thrs[0], False], "backend": "none", "decision": dec, "imetrics": [dec[0]]})
    for im in (["IOU"], ["RVD"], ["ASSD", "DSC"]):
        out.append({"itype": "MATCHED", "matcher": None, "backend": "none", "decision": None, "imetrics": im})
        out.append({"itype": "UNMATCHED", "matcher": ["thr", mmetric, thrs[len(thrs) // 2], False], "backend": "none", "decision": None, "imetrics": im})
    return out


def _pipeline(acc, case, pred, ref, cfg):
    c2 = {**case, "cfg": cfg}
    tag = f"{cfg}"
    acc.step()
    try:
        im = tuple(cfg.get("imetrics") or ALLM)
        ev = make_evaluator(cfg["itype"], matcher=cfg["matcher"], backend=cfg["backend"], decision=cfg["decision"], instance_metrics=im)
        res, steps = ev.evaluate(pred.copy(), ref.copy(), verbose=False)["ungrouped"]
        obs = observe(res, metrics=im, with_global=False)
    except Exception as e:
        acc.violation(f"C02:raised:{type(e).__name__}:{cfg['itype']}", c2, f"{tag}: evaluate raised {e!r}")
        return
    e2e.state_hashes(acc, steps)
    acc.outcome(obs["tp"], obs["fp"], obs["fn"])
    ok = identities(acc, c2, tag, obs)
    # instance counts against the input / the matched map
    mdl = e2e.Model(pred, ref, cfg["itype"], cfg["backend"])
    if obs["num_ref_instances"] != mdl.n_ref:
        acc.violation("C02:num_ref_instances", c2, f"{tag}: num_ref_instances={obs['num_ref_instances']} but the reference has {mdl.n_ref} instances")
        ok = False
    one_to_one = cfg["itype"] == "MATCHED" or (cfg["matcher"][0] == "thr" and not cfg["matcher"][3])
    try:
        mp = np.asarray(steps._intermediatesteps["MATCHED_INSTANCE"].prediction_arr) if "MATCHED_INSTANCE" in steps._intermediatesteps else None
    except Exception:
        mp = None
    if one_to_one and obs["num_pred_instances"] != mdl.n_pred:
        acc.violation("C02:num_pred_instances", c2, f"{tag}: num_pred_instances={obs['num_pred_instances']} but the prediction has {mdl.n_pred} instances")
        ok = False
    if mp is not None:
        nlab = len([x for x in np.unique(mp) if x])
        if nlab != obs["num_pred_instances"]:
            acc.violation("C02:num_pred_vs_matched_map", c2, f"{tag}: num_pred_instances={obs['num_pred_instances']} but the matched prediction map has {nlab} labels")
            ok = False
        if not one_to_one and nlab < mdl.n_pred:
            acc.nontriv("merged", pred.tobytes(), ref.tobytes(), repr(cfg))
    # no true positive may fail the decision threshold (values 1e-9 away from the threshold are not judged)
    if cfg["decision"] is not None:
        dm, dt = cfg["decision"]
        lst = obs.get("list_" + dm)
        if isinstance(lst, list):
            bad = [v for v in lst if not rm.beats(dm, v, dt) and not rm.close(v, dt)]
            if bad:
                acc.violation(f"C02:tp_fails_decision:{dm}", c2, f"{tag}: per-TP {dm} values {lst} contain {bad}, which do not meet the decision threshold {dt}")
                ok = False
    # an instance failing the decision threshold is a false positive and a false negative
    if cfg["decision"] is not None and mp is not None:
        rarr = np.asarray(steps._intermediatesteps["MATCHED_INSTANCE"].reference_arr)
        both = [l for l in np.unique(mp) if l and np.any(rarr == l)]
        if len(both) > obs["tp"]:
            acc.nontriv("dec", pred.tobytes(), ref.tobytes(), repr(cfg))
            if obs["fp"] != obs["num_pred_instances"] - obs["tp"] or obs["fn"] != obs["num_ref_instances"] - obs["tp"]:
                ok = False
        if obs["tp"] > len(both):
            acc.violation("C02:tp_exceeds_matched", c2, f"{tag}: tp={obs['tp']} but only {len(both)} labels are shared by the matched maps")
            ok = False
    if ok:
        acc.ok()


A1 = (0.0, 0.25, 0.5, 1.0)
A2 = (0.0, 0.5, 2.0, 0.5)


def _direct(case, acc):
    from panoptica import PanopticaResult

    nr, npd, tp, li, std = case["n_ref"], case["n_pred"], case["tp"], case["li"], case["std"]
    acc.case("direct", nr, npd, tp, li, std)
    digs = []
    x = li
    for _ in range(tp):
        digs.append(x % 4)
        x //= 4
    l1 = [A1[d] for d in digs]
    l1d = [A1[(d + 1) % 4] for d in digs]
    l2 = [A2[d] for d in digs]
    l2r = [A2[(d + 2) % 4] - 0.5 for d in digs]
    acc.step()
    try:
        res = PanopticaResult(
            reference_arr=None, prediction_arr=None, num_pred_instances=npd, num_ref_instances=nr, tp=tp,
            list_metrics={Metric.IOU: list(l1), Metric.DSC: list(l1d), Metric.ASSD: list(l2), Metric.RVD: list(l2r)},
            edge_case_handler=EdgeCaseHandler(empty_list_std=ECR[std]),
        )
        res.calculate_all()
        obs = observe(res, with_global=False)
    except Exception as e:
        acc.violation(f"C02:direct:raised:{type(e).__name__}", case, f"PanopticaResult({nr},{npd},{tp}) raised {e!r}")
        return
    acc.state("direct", nr, npd, tp, li, std)
    if tp >= 2 and len(set(l1)) > 1:
        acc.nontriv("direct", nr, npd, tp, li)
    acc.outcome(repr(obs["sq_IOU"]), repr(obs["rq"]))
    if acc.evaluations % 997 == 1:
        acc.sample({"direct": case, "lists": {"IOU": l1, "DSC": l1d, "ASSD": l2, "RVD": l2r}})
    if identities(acc, case, f"direct({nr},{npd},{tp})", obs, sig="C02:direct", overlap_ranges=False):
        acc.ok()
