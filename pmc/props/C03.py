"""C03 - the threshold matcher is a sound, conflict-free, maximal best-first assignment.

Every overlap structure of the stated contingency-table scopes (overlap metrics) and every label-map pair
of small grids (ASSD: geometry matters) is given to the real NaiveThresholdMatching.match_instances under one
representative of every threshold equivalence class and both many-to-one settings. The returned matched pair
is judged by an independent validity checker (not a second matcher).
"""
from __future__ import annotations

import numpy as np

from .. import refmodel as rm
from .. import scopes as sc
from ..lib import UnmatchedInstancePair, make_matcher

ID = "C03"
LEVEL = "model_checking"
RULE = (
    "near ties: two candidates for one partner with scores 1/(4m) apart, m in 30/300/3000/30000 (thorough 30..100000), better one with the smaller / larger label, competing predictions / competing references x {IoU,Dice}; 16 / 17 / 33 reference instances (thorough 14..69) with 1-2 overlapping predictions each x {IoU,Dice,ASSD}; all contingency tables CT(2,2,2), CT(3,2,1), CT(2,3,1) (thorough: + CT(3,3,1), CT(2,2,3)) x {IoU,Dice}, all pairs of G1(5,2) x 27 refs and "
    "G2(2,3,2) x 16 refs (thorough: G1(6,2) x 81, G2(2,3,2) x 64) x ASSD; x every threshold class (exact hits, gaps, beyond ends) x allow_many_to_one in {F,T}; histories: every third table of CT(2,2,2) (thorough: all) with a partner table - the two pair objects live through a sequence of 6 matcher configurations (IoU, Dice, ASSD, IoU m2o, Dice m2o, IoU) x every threshold class, each matcher object used on pair i, pair j, pair i. "
    "non-trivial = at least two eligible candidate pairs compete for one partner at some threshold; distinct by overlap structure"
)
ASSUMPTIONS = [
    "scores of candidate pairs recomputed by the reference model; ASSD scores within 1e-9 relative count as tied / as hitting the threshold",
    "with many-to-one only the weak no-displacement form is demanded (a taken reference is a valid excuse), as the statement promises no more",
]
BUDGET = {"quick": 200, "thorough": 2400}


def blocks(tier):
    B = []
    cts = [(2, 2, 2), (3, 2, 1), (2, 3, 1)]
    if tier == "thorough":
        cts += [(3, 3, 1), (2, 2, 3)]
    for P, R, c in cts:
        n = sc.ct_count(P, R, c)
        for lo, hi in sc.ranges(n, 250):
            B.append(("ct", P, R, c, lo, hi))
    # histories: the same pair objects and the same matcher object are used repeatedly (metric / threshold / option changes between uses)
    n222 = sc.ct_count(2, 2, 2)
    for lo, hi in sc.ranges(n222 if tier == "thorough" else n222 // 3, 60):
        B.append(("reuse", tier, lo, hi))
    for n in ((16, 17, 33) if tier == "quick" else tuple(range(14, 70))):
        B.append(("many", n))
    # near ties: two candidates for one partner whose scores differ by 1/(4m) .. (below 1e-2, 1e-3, 1e-4, 1e-5)
    for m in (30, 300, 3000, 30000) if tier == "quick" else (30, 100, 300, 1000, 3000, 10000, 30000, 100000):
        B.append(("neartie", m))
    geo = [((5,), 2, 27), ((2, 3), 2, 16)] if tier == "quick" else [((6,), 2, 81), ((2, 3), 2, 64), ((2, 2, 2), 2, 16)]
    for shape, k, nref in geo:
        n = sc.grid_count(shape, k)
        for lo, hi in sc.ranges(n, max(1, 400 // nref)):
            B.append(("geo", shape, k, nref, lo, hi))
    return B


def ref_indices(n, nref):
    if nref is None or nref >= n:
        return list(range(n))
    step = n / nref
    return sorted({int(i * step + step / 2) % n for i in range(nref)} | {n - 1})


def many_arrays(n):
    """n reference runs of 4 voxels, predictions shifted by 0/1/2 voxels (IoU 1, 3/5, 1/3) plus, for every third, a second small
    prediction on the uncovered rest: more candidate pairs than worker processes"""
    ref = np.zeros(7 * n + 2, dtype=np.uint16)
    pred = np.zeros(7 * n + 2, dtype=np.uint16)
    lab = 1
    for k in range(n):
        ref[7 * k + 1 : 7 * k + 5] = k + 1
        lo = 7 * k + 1 + (k % 3)
        pred[lo : lo + 4] = lab
        lab += 1
        if k % 3 == 2:
            pred[7 * k + 1 : 7 * k + 3] = lab
            lab += 1
    return pred, ref


def neartie_arrays(m, better_first, flip):
    """one reference run of 2m voxels; prediction A covers its first half exactly, prediction B its second half plus one
    voxel outside: IoU m/(2m) against m/(2m+1) (gap about 1/(4m)), Dice 2/3 against 2m/(3m+1). better_first decides which of
    the two carries the smaller label; flip exchanges the roles of prediction and reference (two references, one prediction)"""
    ref = np.zeros(2 * m + 4, dtype=np.uint32)
    pred = np.zeros(2 * m + 4, dtype=np.uint32)
    ref[1 : 2 * m + 1] = 1
    a, b = (1, 2) if better_first else (2, 1)
    pred[1 : m + 1] = a
    pred[m + 1 : 2 * m + 2] = b
    return (ref, pred) if flip else (pred, ref)


def run_block(block, acc):
    if block[0] == "neartie":
        for better_first in (True, False):
            for flip in (False, True):
                p, r = neartie_arrays(block[1], better_first, flip)
                for metric in ("IOU", "DSC"):
                    run_case({"kind": "arr", "pred": sc.arr_to_case(p), "ref": sc.arr_to_case(r), "metric": metric, "many": -block[1] * 4 - 2 * better_first - flip}, acc)
        return
    if block[0] == "many":
        p, r = many_arrays(block[1])
        for metric in ("IOU", "DSC", "ASSD"):
            run_case({"kind": "arr", "pred": sc.arr_to_case(p), "ref": sc.arr_to_case(r), "metric": metric, "many": block[1]}, acc)
        return
    if block[0] == "reuse":
        _, tier, lo, hi = block
        for q in range(lo, hi):
            run_case({"kind": "reuse", "i": q if tier == "thorough" else 3 * q + 1}, acc)
        return
    if block[0] == "ct":
        _, P, R, c, lo, hi = block
        for i in range(lo, hi):
            for metric in ("IOU", "DSC"):
                run_case({"kind": "ct", "P": P, "R": R, "c": c, "i": i, "metric": metric}, acc)
    else:
        _, shape, k, nref, lo, hi = block
        n = sc.grid_count(shape, k)
        for i in range(lo, hi):
            for j in ref_indices(n, nref):
                run_case({"kind": "geo", "shape": list(shape), "k": k, "pi": i, "ri": j, "metric": "ASSD"}, acc)


def arrays_of(case):
    if case["kind"] == "ct":
        t = sc.ct_table(case["i"], case["P"], case["R"], case["c"])
        return sc.ct_arrays(t)
    if case["kind"] == "geo":
        shape = tuple(case["shape"])
        return sc.grid(case["pi"], shape, case["k"]), sc.grid(case["ri"], shape, case["k"])
    if case["kind"] == "arr":
        return sc.arr_from_case(case["pred"]), sc.arr_from_case(case["ref"])
    raise ValueError(case["kind"])


def read_assignment(pred_in, ref_in, pred_out, ref_labels):
    """pred label -> reference label it now carries (or None). Also reports split predictions."""
    asg = {}
    split = []
    for p in np.unique(pred_in):
        if p == 0:
            continue
        outs = np.unique(pred_out[pred_in == p])
        if len(outs) != 1:
            split.append(int(p))
            continue
        o = int(outs[0])
        asg[int(p)] = o if o in ref_labels else None
    return asg, split


def judge_assignment(acc, case, tag, rp, plabs, rlabs, asg, metric, thr, m2o, sigp="C03"):
    """validity of a one-to-one / many-to-one thresholded assignment. asg: pred label -> ref label | None"""
    pidx = {l: i for i, l in enumerate(plabs)}
    ridx = {l: i for i, l in enumerate(rlabs)}
    pairs = [(pidx[p], ridx[r]) for p, r in asg.items() if r is not None]
    cset = set(rp.cands)
    ok = True
    # each reference at most one prediction (one-to-one)
    if not m2o:
        seen = {}
        for p, r in pairs:
            if r in seen:
                acc.violation(f"{sigp}:ref_assigned_twice", case, f"{tag}: reference {rlabs[r]} assigned to predictions {plabs[seen[r]]} and {plabs[p]} without many-to-one")
                ok = False
            seen[r] = p
    for p, r in pairs:
        if (p, r) not in cset:
            acc.violation(f"{sigp}:assigned_without_overlap", case, f"{tag}: prediction {plabs[p]} assigned to reference {rlabs[r]} but they share no voxel")
            ok = False
            continue
        s = rp.score(metric, p, r)
        if not (rm.beats(metric, s, thr) or rm.close(s, thr)):
            acc.violation(f"{sigp}:assigned_below_threshold", case, f"{tag}: pair (pred {plabs[p]}, ref {rlabs[r]}) assigned with {metric}={s} which does not meet threshold {thr}")
            ok = False
    ap = {p: r for p, r in pairs}
    ar = {}
    for p, r in pairs:
        ar.setdefault(r, []).append(p)

    def better_eq(a, b):  # a at least as good as b
        return rm.close(a, b) or (a < b if rm.DECREASING[metric] else a > b)

    for p, r in rp.cands:
        s = rp.score(metric, p, r)
        near = rm.close(s, thr) and not (s == thr)
        if not rm.beats(metric, s, thr) or (metric == "ASSD" and near):
            continue
        if ap.get(p) == r:
            continue
        # eligible, not assigned
        p_taken = p in ap
        r_taken = r in ar
        if not p_taken and not r_taken:
            acc.violation(f"{sigp}:not_maximal", case, f"{tag}: eligible pair (pred {plabs[p]}, ref {rlabs[r]}, {metric}={s}) left with both partners unassigned")
            ok = False
            continue
        excuse = False
        if p_taken and better_eq(rp.score(metric, p, ap[p]), s):
            excuse = True
        if r_taken and any(better_eq(rp.score(metric, q, r), s) for q in ar[r] if (q, r) in cset):
            excuse = True
        if not excuse:
            acc.violation(f"{sigp}:displaced_by_worse", case, f"{tag}: eligible pair (pred {plabs[p]}, ref {rlabs[r]}, {metric}={s}) displaced only by worse-scoring pairs")
            ok = False
    return ok, frozenset(pairs)


def thresholds_for(rp, metric, acc=None, pairs=None, shape=None):
    """every threshold class; an exact-hit threshold is only used when the library's own score of that pair is
    bit-identical to the reference value and, for ASSD, the reference arithmetic is order independent (all contributing
    distances integral); otherwise it is dropped and counted"""
    from ..e2e import lib_pair_score

    thrs = rp.thresholds(metric, pairs)
    cands = rp.cands if pairs is None else pairs
    bad = set()
    for p, r in cands:
        s = rp.score(metric, p, r)
        if metric == "ASSD" and not rp.assd_integral(p, r):
            bad.add(s)
        elif shape is not None and lib_pair_score(metric, shape, rp.R[r], rp.P[p]) != s:
            bad.add(s)
    keep = [t for t in thrs if t not in bad]
    if acc is not None and len(keep) != len(thrs):
        acc.count("near_threshold_skipped", len(thrs) - len(keep))
    return keep


REUSE_SEQ = (("IOU", False), ("DSC", False), ("ASSD", False), ("IOU", True), ("DSC", True), ("IOU", False))


def _reuse_case(case, acc):
    """one UnmatchedInstancePair object per table (i and a partner table j) lives through the whole case and is handed to a
    sequence of matchers of changing metric / threshold / many-to-one; each matcher object is used on pair i, pair j and pair i
    again. Every single result must pass the validity checker for its own configuration."""
    n = sc.ct_count(2, 2, 2)
    i = case["i"]
    acc.case("reuse", i)
    tabs = []
    for t in (i, (i * 7 + 3) % n):
        pred, ref = sc.ct_arrays(sc.ct_table(t, 2, 2, 2))
        pv, rv = rm.voxsets(pred), rm.voxsets(ref)
        if not pv or not rv:
            continue
        plabs, rlabs = sorted(pv), sorted(rv)
        tabs.append(dict(t=t, pred=pred, ref=ref, plabs=plabs, rlabs=rlabs, rp=rm.RefPair([pv[l] for l in plabs], [rv[l] for l in rlabs]), up=UnmatchedInstancePair(pred.copy(), ref.copy())))
    if not tabs:
        acc.count("skipped_empty_side")
        return
    if len(tabs) == 1:
        tabs = tabs * 2
    acc.nontriv("reuse", i)
    for step, (metric, m2o) in enumerate(REUSE_SEQ):
        keeps = [thresholds_for(T["rp"], metric, None, shape=T["pred"].shape) for T in tabs]
        thrs = []
        for t in keeps[0]:
            # a threshold of table i is used on table j only if it is not an unguarded near-hit of one of j's scores
            sj = [tabs[1]["rp"].score(metric, p, r) for p, r in tabs[1]["rp"].cands]
            if any(rm.close(t, s_) for s_ in sj) and t not in keeps[1]:
                continue
            thrs.append(t)
        for thr in thrs:
            try:
                M = make_matcher(["thr", metric, thr, m2o])
            except Exception as e:
                acc.violation(f"C03:reuse:raised:{type(e).__name__}", {**case, "step": step, "thr": thr}, f"matcher construction raised {e!r}")
                continue
            for use, T in enumerate((tabs[0], tabs[1], tabs[0])):
                c2 = {**case, "step": step, "metric": metric, "thr": thr, "m2o": m2o, "use": use}
                tag = f"history step {step} ({metric}, thr={thr}, many_to_one={m2o}), use {use} of the matcher object on table {T['t']} (pair object reused since step 0)"
                acc.step()
                try:
                    out = M.match_instances(T["up"])
                except Exception as e:
                    acc.violation(f"C03:reuse:raised:{type(e).__name__}", c2, f"{tag}: match_instances raised {e!r}")
                    continue
                if not (np.array_equal(T["up"].prediction_arr, T["pred"]) and np.array_equal(T["up"].reference_arr, T["ref"])):
                    acc.count("reuse_input_pair_modified")
                    T["up"] = UnmatchedInstancePair(T["pred"].copy(), T["ref"].copy())
                acc.state("reuse", T["t"], metric, thr, m2o, out.prediction_arr)
                asg, split = read_assignment(T["pred"], T["ref"], out.prediction_arr, set(T["rlabs"]))
                if split:
                    acc.violation("C03:reuse:prediction_split", c2, f"{tag}: predictions {split} carry more than one label after matching")
                    continue
                ok, pairs = judge_assignment(acc, c2, tag, T["rp"], T["plabs"], T["rlabs"], asg, metric, thr, m2o, sigp="C03:reuse")
                acc.outcome(sorted(pairs))
                if ok:
                    acc.ok()


def run_case(case, acc):
    if case["kind"] == "reuse":
        return _reuse_case(case, acc)
    pred, ref = arrays_of(case)
    metric = case["metric"]
    acc.case(case["kind"], case.get("P"), case.get("R"), case.get("c"), case.get("i"), case.get("shape"), case.get("pi"), case.get("ri"), case.get("many"), metric)
    pv, rv = rm.voxsets(pred), rm.voxsets(ref)
    if not pv or not rv:
        acc.count("skipped_empty_side")  # the pipeline never calls the matcher then (zero-instance shortcut)
        return
    plabs, rlabs = sorted(pv), sorted(rv)
    rp = rm.RefPair([pv[l] for l in plabs], [rv[l] for l in rlabs])
    thrs = [case["thr"]] if "thr" in case else thresholds_for(rp, metric, acc, shape=pred.shape)
    m2os = [case["m2o"]] if "m2o" in case else [False, True]
    if acc.evaluations % 2003 == 1:
        acc.sample({"pred": pred.tolist(), "ref": ref.tolist(), "metric": metric, "thresholds": thrs, "many_to_one": m2os})
    # non-trivial: some partner has >= 2 candidates
    from collections import Counter

    cp, cr = Counter(p for p, r in rp.cands), Counter(r for p, r in rp.cands)
    if any(v > 1 for v in cp.values()) or any(v > 1 for v in cr.values()):
        acc.nontriv(case["kind"], pred.tobytes(), ref.tobytes(), pred.shape)
    for m2o in m2os:
        prev = None
        order = sorted(thrs, reverse=rm.DECREASING[metric])  # from lenient to strict
        for thr in order:
            c2 = {**case, "thr": thr, "m2o": m2o}
            tag = f"{metric}>={thr}" if not rm.DECREASING[metric] else f"{metric}<={thr}"
            tag += f" many_to_one={m2o}"
            acc.step()
            try:
                up = UnmatchedInstancePair(pred.copy(), ref.copy())
                out = make_matcher(["thr", metric, thr, m2o]).match_instances(up)
            except Exception as e:
                acc.violation(f"C03:raised:{type(e).__name__}:m2o={m2o}", c2, f"{tag}: match_instances raised {e!r}")
                prev = None
                continue
            acc.state("matched", out.prediction_arr, out.reference_arr)
            asg, split = read_assignment(pred, ref, out.prediction_arr, set(rlabs))
            if split:
                acc.violation("C03:prediction_split", c2, f"{tag}: predictions {split} carry more than one label after matching")
                continue
            ok, pairs = judge_assignment(acc, c2, tag, rp, plabs, rlabs, asg, metric, thr, m2o)
            acc.outcome(sorted(pairs))
            if prev is not None and not (pairs <= prev[1]):
                acc.violation("C03:not_monotone", {**c2, "thr_lenient": prev[0]}, f"{tag}: matched pairs {sorted(pairs)} at the stricter threshold are not a subset of {sorted(prev[1])} at {prev[0]}")
                ok = False
            prev = (thr, pairs)
            if ok:
                acc.ok()
