"""C04 - relabelling after matching preserves both segmentations.

Matcher outputs on a small complete base of overlap structures are composed with every injective relabelling
of each side into boundary label values of every unsigned dtype, plus a boundary family in which
(largest reference label + number of unmatched predictions) crosses 255 / 65535, through instance maps and
through the approximator's smallest-fitting dtype.
"""
from __future__ import annotations

import itertools

import numpy as np

from .. import refmodel as rm
from .. import scopes as sc
from ..lib import SemanticPair, UnmatchedInstancePair, make_approximator, make_matcher
from .C03 import judge_assignment, read_assignment
from .C14 import judge_merge

ID = "C04"
LEVEL = "model_checking"
RULE = (
    "bases: all tables of CT(2,2,1), CT(3,1,1), CT(1,3,1) (thorough: the same tables with 7 targets per dtype, + CT(3,2,1), CT(2,2,2) with maps applied to the prediction only / the reference only / both sides rotated) x matcher in {threshold IoU .5, threshold IoU lowest many-to-one, "
    "merge IoU .5} x all injective maps of each side's labels into the dtype's boundary targets (uint8: 1,2,127,254,255; uint16: 1,255,256,65534,65535; "
    "uint32/64: 1,65536,70000 (+2^24-1 thorough)) independently per side; boundary family: n_ref in {253,254,255,65534,65535} one-voxel references x 0..3 "
    "unmatched + 0..2 matched predictions, as instance maps in every dtype that holds them and as semantic maps through the approximator. "
    "non-trivial = at least one unmatched prediction needs a fresh label; distinct by (arrays, matcher)"
)
ASSUMPTIONS = [
    "which prediction is matched is read from the returned arrays (label equal to a reference label) and validated against the C03/C14 validity checkers",
    "the returned arrays may have a wider dtype than the input (values are compared, not dtypes)",
]
BUDGET = {"quick": 200, "thorough": 1500}

TARGETS = {
    "quick": {"uint8": (1, 2, 127, 254, 255), "uint16": (1, 255, 256, 65534, 65535), "uint32": (1, 65536, 70000), "uint64": (1, 65536, 70000)},
    "thorough": {"uint8": (1, 2, 3, 127, 128, 254, 255), "uint16": (1, 2, 255, 256, 257, 65534, 65535), "uint32": (1, 255, 65535, 65536, 70000),
                 "uint64": (1, 65536, 70000, 2**24 - 1)},
}
MATCHERS = [["thr", "IOU", 0.5, False], ["thr", "IOU", "LOW", True], ["merge", "IOU", 0.5]]


def blocks(tier):
    B = []
    cts = [(2, 2, 1), (3, 1, 1), (1, 3, 1)]
    for P, R, c in cts:
        n = sc.ct_count(P, R, c)
        for dt in sc.UDT:
            per = (8 if dt in ("uint8", "uint16") else 64) if tier == "quick" else (2 if dt in ("uint8", "uint16") else 16)
            for lo, hi in sc.ranges(n, per):
                B.append(("ct", tier, P, R, c, dt, lo, hi))
    if tier == "thorough":
        # larger overlap structures with the factored map family (prediction only / reference only / both sides the same targets)
        for P, R, c in [(3, 2, 1), (2, 2, 2)]:
            n = sc.ct_count(P, R, c)
            for dt in ("uint8", "uint16"):
                for lo, hi in sc.ranges(n, 8):
                    B.append(("ct", "factored", P, R, c, dt, lo, hi))
    # 2-D pairs given to the matchers in every memory layout (Fortran order, negative / non-unit strides, mixed)
    n2 = sc.grid_count((2, 2), 2)
    for lo, hi in sc.ranges(n2, 3):
        B.append(("lay", lo, hi))
    for nref in (253, 254, 255, 65534, 65535):
        for mode in ("instance", "semantic"):
            B.append(("bnd", nref, mode))
    return B


LAYOUT_PAIRS = (("F", "F"), ("F", "C"), ("C", "F"), ("rev", "strided"), ("strided", "rev"))


def run_block(block, acc):
    if block[0] == "lay":
        n2 = sc.grid_count((2, 2), 2)
        for i in range(block[1], block[2]):
            for j in range(n2):
                run_case({"kind": "lay", "pi": i, "ri": j}, acc)
        return
    if block[0] == "ct":
        _, tier, P, R, c, dt, lo, hi = block
        for i in range(lo, hi):
            run_case({"kind": "ct", "tier": tier, "P": P, "R": R, "c": c, "i": i, "dtype": dt}, acc)
    else:
        _, nref, mode = block
        for nun in range(4):
            for nmatch in range(3):
                run_case({"kind": "bnd", "nref": nref, "mode": mode, "unmatched": nun, "matched": nmatch}, acc)


def check_output(acc, case, tag, pred, ref, out, matcher_cfg, sig="C04"):
    """the five clauses of the statement on one matcher output"""
    ok = True
    po, ro = np.asarray(out.prediction_arr), np.asarray(out.reference_arr)
    if ro.shape != ref.shape or not np.array_equal(ro.astype(object), ref.astype(object)):
        acc.violation(f"{sig}:reference_changed", case, f"{tag}: the reference map returned by matching differs from the input")
        return False
    if po.shape != pred.shape or not np.array_equal(po != 0, pred != 0):
        lost = int(np.count_nonzero((po != 0) != (pred != 0)))
        acc.violation(f"{sig}:prediction_foreground_changed", case, f"{tag}: {lost} voxels changed between foreground and background in the prediction")
        return False
    pv, rv = rm.voxsets(pred), rm.voxsets(ref)
    ov = rm.voxsets(po)
    rlabs = sorted(rv)
    plabs = sorted(pv)
    asg, split = read_assignment(pred, ref, po, set(rlabs))
    if split:
        acc.violation(f"{sig}:prediction_split", case, f"{tag}: predictions {split} are split over several labels after matching")
        return False
    # expected partition: predictions assigned to the same reference merged, everything else unchanged
    exp = {}
    for p in plabs:
        key = ("r", asg[p]) if asg[p] is not None else ("p", p)
        exp[key] = exp.get(key, frozenset()) | pv[p]
    if set(exp.values()) != set(ov.values()):
        acc.violation(f"{sig}:partition_changed", case, f"{tag}: the partition of the prediction into instances changed beyond merging predictions matched to one reference (labels before {plabs}, after {sorted(ov)})")
        ok = False
    # unmatched predictions: label distinct from every reference label and every other prediction (by construction of
    # read_assignment an 'unmatched' label is not a reference label; distinctness = partition check). The assignment itself
    # must be a valid one for the matcher used, otherwise a 'matched' label is a collision.
    rp = rm.RefPair([pv[l] for l in plabs], [rv[l] for l in rlabs])
    if matcher_cfg[0] == "thr":
        good, _ = judge_assignment(acc, case, tag, rp, plabs, rlabs, asg, matcher_cfg[1], matcher_cfg[2], matcher_cfg[3], sigp=f"{sig}:collision")
    else:
        good, _ = judge_merge(acc, case, tag, rp, plabs, rlabs, asg, matcher_cfg[1], matcher_cfg[2], sigp=f"{sig}:collision")
    return ok and good


def _matcher_cfg(m, rp):
    if m[2] == "LOW":
        vals = sorted({rp.score(m[1], p, r) for p, r in rp.cands})
        thr = vals[0] if vals else 0.5
        return [m[0], m[1], thr, m[3]]
    return list(m)


def run_case(case, acc):
    if case["kind"] == "bnd":
        return _bnd_case(case, acc)
    if case["kind"] == "lay":
        bp, br = sc.grid(case["pi"], (2, 2), 2), sc.grid(case["ri"], (2, 2), 2)
        acc.case("lay", case["pi"], case["ri"])
        if not np.any(bp) or not np.any(br):
            return
        for lp, lr in ([tuple(case["layout"])] if "layout" in case else LAYOUT_PAIRS):
            for dt in ("uint8", "uint16"):
                P, R = sc.apply_layout(bp.astype(dt), lp), sc.apply_layout(br.astype(dt), lr)
                for m in [case["matcher"]] if "matcher" in case else MATCHERS:
                    _one(acc, {**case, "layout": [lp, lr], "dtype": dt, "matcher": m}, P, R, m)
        return
    if case["kind"] == "arr":
        pred, ref = sc.arr_from_case(case["pred"]), sc.arr_from_case(case["ref"])
        return _one(acc, case, pred, ref, case["matcher"])
    t = sc.ct_table(case["i"], case["P"], case["R"], case["c"])
    bp, br = sc.ct_arrays(t)
    dt = case["dtype"]
    acc.case("ct", case["P"], case["R"], case["c"], case["i"], dt)
    pl = [int(x) for x in np.unique(bp) if x]
    rl = [int(x) for x in np.unique(br) if x]
    if not pl or not rl:
        acc.count("skipped_empty_side")
        return
    factored = case.get("tier") == "factored"
    targets = TARGETS["quick" if factored else case.get("tier", "quick")][dt]
    pmaps = [case["pmap"]] if "pmap" in case else list(sc.injective_maps(tuple(pl), targets))
    rmaps = [case["rmap"]] if "rmap" in case else list(sc.injective_maps(tuple(rl), targets))
    if factored and "pmap" not in case:
        ident_p, ident_r = {l: l for l in pl}, {l: l for l in rl}
        combos = [(pm, ident_r) for pm in pmaps] + [(ident_p, rmap) for rmap in rmaps]
        combos += [(pm, {l: list(pm.values())[(i + 1) % len(pm)] for i, l in enumerate(rl)}) for pm in pmaps if len(pm) >= len(rl) and len(pm) > 1]
    else:
        combos = [(pm, rmap) for pm in pmaps for rmap in rmaps]
    for pm, rmap in combos:
        pm = {int(k): v for k, v in pm.items()}
        rmap = {int(k): v for k, v in rmap.items()}
        pred, ref = sc.relabel(bp, pm, dt), sc.relabel(br, rmap, dt)
        for m in [case["matcher"]] if "matcher" in case else MATCHERS:
            _one(acc, {**case, "pmap": pm, "rmap": rmap, "matcher": m}, pred, ref, m)


def _one(acc, case, pred, ref, m):
    pv, rv = rm.voxsets(pred), rm.voxsets(ref)
    plabs, rlabs = sorted(pv), sorted(rv)
    rp = rm.RefPair([pv[l] for l in plabs], [rv[l] for l in rlabs])
    cfg = _matcher_cfg(m, rp)
    tag = f"{cfg} dtype={pred.dtype} pred labels {plabs} ref labels {rlabs}"
    acc.step()
    try:
        # (numpy's .copy() would normalise the layout to C order: pass same-content arrays of the given layout)
        out = make_matcher(cfg).match_instances(UnmatchedInstancePair(pred if case.get("kind") == "lay" else pred.copy(), ref if case.get("kind") == "lay" else ref.copy()))
    except Exception as e:
        acc.violation(f"C04:raised:{type(e).__name__}", case, f"{tag}: match_instances raised {e!r}")
        return
    acc.state("out", out.prediction_arr, out.reference_arr)
    nun = sum(1 for p in plabs if int(np.unique(out.prediction_arr[pred == p])[0]) not in rlabs) if True else 0
    if nun:
        acc.nontriv(pred.tobytes(), ref.tobytes(), str(pred.dtype), repr(cfg))
    acc.outcome(np.asarray(out.prediction_arr).astype(np.uint64).tobytes())
    if acc.evaluations % 211 == 1 and nun:
        acc.sample({"pred": pred.tolist(), "ref": ref.tolist(), "dtype": str(pred.dtype), "matcher": cfg, "matched_prediction": np.asarray(out.prediction_arr).tolist()})
    if check_output(acc, case, tag, pred, ref, out, cfg):
        acc.ok()


def _bnd_arrays(nref, nun, nmatch):
    """1-D instance maps: references 1..nref are single voxels at positions 0..nref-1; `nmatch` predictions coincide with the
    first references, `nun` unmatched predictions sit on extra voxels behind them."""
    n = nref + nun + 1
    ref = np.zeros(n, dtype=np.uint64)
    ref[:nref] = np.arange(1, nref + 1, dtype=np.uint64)
    pred = np.zeros(n, dtype=np.uint64)
    lab = 1
    for j in range(nmatch):
        pred[j] = lab
        lab += 1
    for j in range(nun):
        pred[nref + j] = lab
        lab += 1
    return pred, ref


def _bnd_case(case, acc):
    nref, nun, nmatch, mode = case["nref"], case["unmatched"], case["matched"], case["mode"]
    acc.case("bnd", nref, nun, nmatch, mode)
    if nun + nmatch == 0:
        acc.count("skipped_empty_side")
        return
    cfg = ["thr", "IOU", 0.5, False]
    if mode == "instance":
        pred64, ref64 = _bnd_arrays(nref, nun, nmatch)
        for dt in sc.UDT:
            if nref > np.iinfo(dt).max:
                continue
            pred, ref = pred64.astype(dt), ref64.astype(dt)
            tag = f"boundary n_ref={nref} unmatched={nun} matched={nmatch} dtype={dt}"
            acc.step()
            try:
                out = make_matcher(cfg).match_instances(UnmatchedInstancePair(pred.copy(), ref.copy()))
            except Exception as e:
                acc.violation(f"C04:bnd:raised:{type(e).__name__}", {**case, "dtype": dt}, f"{tag}: match_instances raised {e!r}")
                continue
            acc.state("bnd", nref, nun, nmatch, dt)
            if nun:
                acc.nontriv("bnd", nref, nun, nmatch, dt)
            if _bnd_check(acc, {**case, "dtype": dt}, tag, pred, ref, out, nmatch, nun):
                acc.ok()
    else:
        # semantic maps: alternating foreground/background gives nref one-voxel components; the approximator picks the dtype
        n = 2 * (nref + nun) + 2
        ref = np.zeros(n, dtype=np.int32)
        ref[0 : 2 * nref : 2] = 1
        pred = np.zeros(n, dtype=np.int32)
        for j in range(nmatch):
            pred[2 * j] = 1
        for j in range(nun):
            pred[2 * nref + 2 * j + 1] = 1
        tag = f"boundary semantic n_ref={nref} unmatched={nun} matched={nmatch}"
        acc.step(2)
        try:
            up = make_approximator("default").approximate_instances(SemanticPair(pred.copy(), ref.copy()))
            pin, rin = np.asarray(up.prediction_arr).copy(), np.asarray(up.reference_arr).copy()
            out = make_matcher(cfg).match_instances(up)
        except Exception as e:
            acc.violation(f"C04:bnd:raised:{type(e).__name__}", case, f"{tag}: approximate+match raised {e!r}")
            return
        acc.state("bnds", nref, nun, nmatch)
        if nun:
            acc.nontriv("bnds", nref, nun, nmatch)
        acc.sample({"boundary": case, "approximated_dtype": str(pin.dtype)})
        if _bnd_check(acc, case, tag, pin, rin, out, nmatch, nun):
            acc.ok()


def _bnd_check(acc, case, tag, pred, ref, out, nmatch, nun):
    """vectorised version of the clauses (65k instances make the set-based checker too slow)"""
    po, ro = np.asarray(out.prediction_arr), np.asarray(out.reference_arr)
    if not np.array_equal(ro.astype(np.uint64), ref.astype(np.uint64)):
        acc.violation("C04:bnd:reference_changed", case, f"{tag}: reference changed")
        return False
    if not np.array_equal(po != 0, pred != 0):
        acc.violation("C04:bnd:prediction_foreground_changed", case, f"{tag}: prediction foreground changed ({int(np.count_nonzero(pred))} -> {int(np.count_nonzero(po))} voxels)")
        return False
    ok = True
    reflabels = set(int(x) for x in np.unique(ref) if x)
    pos = np.flatnonzero(pred)
    outl = [int(po[i]) for i in pos]
    matched_pos = [i for i in pos if ref[i] != 0]
    for i in matched_pos:
        if int(po[i]) != int(ref[i]):
            acc.violation("C04:bnd:matched_label_wrong", case, f"{tag}: prediction coinciding with reference {int(ref[i])} carries label {int(po[i])}")
            ok = False
    un = [int(po[i]) for i in pos if ref[i] == 0]
    if len(set(un)) != len(un) or any(u in reflabels for u in un):
        acc.violation("C04:bnd:fresh_label_collision", case, f"{tag}: unmatched predictions received labels {un} (must be distinct and differ from the {len(reflabels)} reference labels, max {max(reflabels)})")
        ok = False
    return ok
