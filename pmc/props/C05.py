"""C05 - instance approximation yields exactly the connected components.

Every semantic map of the stated grids (incl. 3-D shapes with singleton axes) goes through the real
ConnectedComponentsInstanceApproximator for every backend choice, partner array and integer dtype; the output partition
must equal an independent BFS labelling; plus families with 254..257 / 65535..65536 components (dtype selection) and
rejection of negative values.
"""
from __future__ import annotations

import itertools

import numpy as np

from .. import refmodel as rm
from .. import scopes as sc
from ..lib import SemanticPair, make_approximator

ID = "C05"
LEVEL = "model_checking"
RULE = (
    "all semantic maps of G1(8,2), G2(3,3,2), G2(2,4,2), G3(2,2,2,2), G3(1,2,3,2), G3(2,1,3,2), G3(2,3,1,2), G3(1,3,3,1) x backend in {default,cc3d,scipy} (partner = itself, uint8); "
    "full product backend x partner in {empty, itself, fixed other} x dtype in {uint8,int8,int16,int64,uint64} on G1(6,2), G2(2,3,2), G3(2,2,2,1) (thorough: + G3(2,2,3,2), G2(3,4,1), G2(3,3,3) x uint8); "
    "memory layouts (Fortran / negative strides / strided views, same and mixed) on the 2-D/3-D small scopes; label-value family on the same small scope: semantic labels {255,256}, {65535,65536}, {2^32-2, 2^32-1}, {127,1} in int8..uint64 x backends; component-count family: 1-D/2-D maps with n in {254,255,256,257,65535,65536} isolated components x semantic labels {1, 200} x backends; every map of G1(4,{-1,0,1}) with a negative value x signed dtypes must be rejected. "
    "non-trivial = the three backend choices do not all give the same partition (diagonal contact or touching labels); distinct by map"
)
ASSUMPTIONS = ["connectivity definitions: cc3d = full (8/26) per semantic label, scipy = face (4/6) on the binary foreground, default = cc3d iff ndim >= 3"]
BUDGET = {"quick": 200, "thorough": 1500}

DTS = ("uint8", "int8", "int16", "int64", "uint64")
BACKENDS = ("default", "cc3d", "scipy")


def blocks(tier):
    B = []
    big = [((8,), 2), ((3, 3), 2), ((2, 4), 2), ((2, 2, 2), 2), ((1, 2, 3), 2), ((2, 1, 3), 2), ((2, 3, 1), 2), ((1, 3, 3), 1)]
    small = [((6,), 2), ((2, 3), 2), ((2, 2, 2), 1)]
    if tier == "thorough":
        big += [((2, 2, 3), 2), ((3, 4), 1), ((3, 3), 3), ((1, 3, 3), 2)]
        small += [((2, 2, 2), 2)]
    for shape, k in big:
        n = sc.grid_count(shape, k)
        for lo, hi in sc.ranges(n, 1200):
            B.append(("big", shape, k, lo, hi))
    for shape, k in small:
        n = sc.grid_count(shape, k)
        for lo, hi in sc.ranges(n, 60):
            B.append(("small", shape, k, lo, hi))
    for n in (254, 255, 256, 257, 65535, 65536):
        B.append(("many", n))
    B.append(("neg",))
    B.append(("reuse",))
    return B


def run_block(block, acc):
    kind = block[0]
    if kind in ("big", "small"):
        _, shape, k, lo, hi = block
        for i in range(lo, hi):
            run_case({"kind": kind, "shape": list(shape), "k": k, "i": i}, acc)
    elif kind == "many":
        for dim in (1, 2):
            for lab in (1, 200):
                for side in ("pred", "ref", "both"):
                    run_case({"kind": "many", "n": block[1], "dim": dim, "label": lab, "side": side}, acc)
    elif kind == "reuse":
        for a in range(len(REUSE_MAPS)):
            for b in range(len(REUSE_MAPS)):
                for backend in BACKENDS:
                    run_case({"kind": "reuse", "a": a, "b": b, "backend": backend}, acc)
    else:
        for i in range(3**4):
            run_case({"kind": "neg", "i": i}, acc)


def partition_check(acc, case, tag, sem, out, n_reported, backend, side):
    """out: approximated instance map of semantic map `sem`"""
    sem = np.asarray(sem)
    out = np.asarray(out)
    ok = True
    if out.shape != sem.shape or not np.array_equal(out != 0, sem != 0):
        acc.violation("C05:foreground_changed", case, f"{tag} [{side}]: approximation changed the foreground ({int(np.count_nonzero(sem))} -> {int(np.count_nonzero(out))} voxels)")
        return False
    exp = rm.approx_instances(sem, None if backend == "default" else backend)
    got = rm.voxsets(out)
    labs = sorted(got)
    n = len(exp)
    if labs != list(range(1, len(labs) + 1)):
        acc.violation("C05:labels_not_1_to_n", case, f"{tag} [{side}]: labels are {labs[:10]}..., expected 1..{n}")
        ok = False
    if set(got.values()) != set(exp):
        # explain: split or joined?
        kind = "instances_joined" if len(got) < n else "instances_split" if len(got) > n else "partition_differs"
        acc.violation(f"C05:{kind}:{backend if backend != 'default' else 'default' + str(sem.ndim) + 'd'}", case,
                      f"{tag} [{side}]: {len(got)} instances, the {('full' if (backend == 'cc3d' or (backend == 'default' and sem.ndim >= 3)) else 'face')}-connectivity components are {n}")
        ok = False
    if int(n_reported) != n:
        acc.violation("C05:count_wrong", case, f"{tag} [{side}]: reported {n_reported} instances, there are {n} connected components")
        ok = False
    return ok


def _approx(acc, case, tag, pred, ref, backend):
    acc.step()
    try:
        out = make_approximator(backend).approximate_instances(SemanticPair(pred.copy(), ref.copy()))
        return out
    except Exception as e:
        acc.violation(f"C05:raised:{type(e).__name__}", case, f"{tag}: approximate_instances raised {e!r}")
        return None


REUSE_MAPS = [
    [1, 1, 0, 2, 2, 1, 0, 1],
    [[1, 0, 2], [0, 1, 2], [2, 0, 0]],
    [[1, 2, 2], [1, 1, 2], [0, 0, 1]],
    [[[1, 0], [0, 0]], [[0, 0], [0, 1]]],
    [[[1, 2], [2, 0]], [[0, 0], [1, 1]]],
    [[[1, 1, 0]], [[0, 2, 2]]],
]


def _reuse(case, acc):
    """ONE approximator object used for two maps in a row (possibly of different dimensionality): the second result must be
    what a fresh approximator gives"""
    a, b, backend = case["a"], case["b"], case["backend"]
    acc.case("reuse", a, b, backend)
    A, B = np.array(REUSE_MAPS[a], dtype=np.uint8), np.array(REUSE_MAPS[b], dtype=np.uint8)
    tag = f"backend={backend}: one approximator used for a {A.ndim}-D map and then for the {B.ndim}-D map {B.tolist()}"
    acc.step(2)
    try:
        ap = make_approximator(backend)
        ap.approximate_instances(SemanticPair(A.copy(), A.copy()))
        out = ap.approximate_instances(SemanticPair(B.copy(), B.copy()))
    except Exception as e:
        acc.violation(f"C05:reuse_raised:{type(e).__name__}", case, f"{tag}: raised {e!r}")
        return
    acc.state("reuse", a, b, backend)
    if A.ndim != B.ndim:
        acc.nontriv("reuse", a, b, backend)
    if partition_check(acc, case, tag, B, out.prediction_arr, out.n_prediction_instance, backend, "second use"):
        acc.ok()


def run_case(case, acc):
    kind = case["kind"]
    if kind == "reuse":
        return _reuse(case, acc)
    if kind == "many":
        return _many(case, acc)
    if kind == "neg":
        return _neg(case, acc)
    shape, k, i = tuple(case["shape"]), case["k"], case["i"]
    base = sc.grid(i, shape, k, dtype=np.int64)
    acc.case(kind, shape, k, i)
    # trivial / non-trivial: do full- and face-connectivity partitions (per label / binary) differ?
    parts = {b: frozenset(rm.approx_instances(base, b)) for b in ("cc3d", "scipy")}
    if parts["cc3d"] != parts["scipy"]:
        acc.nontriv(shape, k, i)
    if acc.evaluations % 2503 == 1:
        acc.sample({"semantic_map": base.tolist(), "components_cc3d": len(parts["cc3d"]), "components_scipy": len(parts["scipy"])})
    other = sc.grid((i * 7 + 3) % sc.grid_count(shape, k), shape, k, dtype=np.int64)
    if kind == "big":
        combos = [(b, "self", "uint8") for b in BACKENDS]
    else:
        combos = list(itertools.product(BACKENDS, ("empty", "self", "other"), DTS))
        # semantic label VALUES around the dtype-selection boundaries (the approximator first casts to the smallest fitting uint)
        if "combo" not in case:
            # memory layouts of the two arrays (Fortran order, negative strides, strided views; same and mixed)
            if base.ndim >= 2:
                for lp, lr in (("F", "F"), ("F", "C"), ("rev", "strided"), ("strided", "F")):
                    for backend in BACKENDS:
                        semu = base.astype(np.uint8)
                        P, R = sc.apply_layout(semu, lp), sc.apply_layout(other.astype(np.uint8), lr)
                        c3 = {**case, "layout": [lp, lr], "backend": backend}
                        tg = f"backend={backend} layouts pred={lp} ref={lr} map={base.tolist()}"
                        o = _approx(acc, c3, tg, P, R, backend)
                        if o is not None:
                            acc.state("ly", backend, lp, lr, np.asarray(o.prediction_arr))
                            g = partition_check(acc, c3, tg, semu, o.prediction_arr, o.n_prediction_instance, backend, "pred")
                            g = partition_check(acc, c3, tg, other.astype(np.uint8), o.reference_arr, o.n_reference_instance, backend, "ref") and g
                            if g:
                                acc.ok()
            for lm, dt in (({1: 255, 2: 256}, "int32"), ({1: 256, 2: 255}, "uint16"), ({1: 65535, 2: 65536}, "int64"), ({1: 65536, 2: 1}, "uint32"), ({1: 4294967294, 2: 4294967295}, "uint64"), ({1: 127, 2: 1}, "int8")):
                for backend in BACKENDS:
                    _label_value_case(acc, case, base, lm, dt, backend, parts)
    if "combo" in case:
        combos = [tuple(case["combo"])]
    for backend, partner, dt in combos:
        if k > np.iinfo(dt).max:
            continue
        sem = base.astype(dt)
        par = {"empty": np.zeros_like(sem), "self": sem.copy(), "other": other.astype(dt)}[partner]
        c2 = {**case, "combo": [backend, partner, dt]}
        tag = f"backend={backend} dtype={dt} partner={partner} map={base.tolist()}"
        # the map under test is the prediction once and the reference once
        for side in ("pred", "ref"):
            p, r = (sem, par) if side == "pred" else (par, sem)
            out = _approx(acc, c2, tag, p, r, backend)
            if out is None:
                continue
            acc.state(backend, np.asarray(out.prediction_arr), np.asarray(out.reference_arr))
            o, n = (out.prediction_arr, out.n_prediction_instance) if side == "pred" else (out.reference_arr, out.n_reference_instance)
            good = partition_check(acc, c2, tag, sem, o, n, backend, side)
            o2, n2 = (out.reference_arr, out.n_reference_instance) if side == "pred" else (out.prediction_arr, out.n_prediction_instance)
            good = partition_check(acc, c2, tag, par, o2, n2, backend, "partner") and good
            if np.asarray(out.prediction_arr).dtype != np.asarray(out.reference_arr).dtype or not np.issubdtype(np.asarray(out.prediction_arr).dtype, np.unsignedinteger):
                acc.violation("C05:dtype", c2, f"{tag}: output dtypes {np.asarray(out.prediction_arr).dtype}/{np.asarray(out.reference_arr).dtype}")
                good = False
            acc.outcome(len(rm.voxsets(np.asarray(o))), backend if parts["cc3d"] != parts["scipy"] else "same")
            if good:
                acc.ok()


def _label_value_case(acc, case, base, lm, dt, backend, parts):
    sem = sc.relabel(base, lm, dt)
    c2 = {**case, "label_map": {str(k): v for k, v in lm.items()}, "dtype": dt, "backend": backend}
    tag = f"backend={backend} dtype={dt} labels {lm} map={sem.tolist()}"
    out = _approx(acc, c2, tag, sem, sem.copy(), backend)
    if out is None:
        return
    acc.state("lv", backend, np.asarray(out.prediction_arr), dt, repr(lm))
    good = partition_check(acc, c2, tag, sem, out.prediction_arr, out.n_prediction_instance, backend, "pred")
    good = partition_check(acc, c2, tag, sem, out.reference_arr, out.n_reference_instance, backend, "ref") and good
    if good:
        acc.ok()


def _many_map(n, dim, label):
    if dim == 1:
        a = np.zeros(2 * n + 1, dtype=np.uint8)
        a[1 : 2 * n : 2] = label
        return a
    w = 2 * int(np.ceil(np.sqrt(n))) + 1
    a = np.zeros((w, w), dtype=np.uint8)
    cnt = 0
    for y in range(1, w, 2):
        for x in range(1, w, 2):
            if cnt < n:
                a[y, x] = label
                cnt += 1
    assert cnt == n
    return a


def _many(case, acc):
    n, dim, lab, side = case["n"], case["dim"], case["label"], case["side"]
    acc.case("many", n, dim, lab, side)
    big = _many_map(n, dim, lab)
    small = np.zeros_like(big)
    small[(1,) * dim] = lab
    pred, ref = {"pred": (big, small), "ref": (small, big), "both": (big, big.copy())}[side]
    for backend in BACKENDS:
        tag = f"{n} isolated components ({dim}-D, semantic label {lab}, side={side}) backend={backend}"
        c2 = {**case, "backend": backend}
        out = _approx(acc, c2, tag, pred, ref, backend)
        if out is None:
            continue
        acc.state("many", n, dim, lab, side, backend)
        acc.nontriv("many", n, dim, lab, side)
        good = _fast_check(acc, c2, tag, pred, out.prediction_arr, out.n_prediction_instance, "pred")
        good = _fast_check(acc, c2, tag, ref, out.reference_arr, out.n_reference_instance, "ref") and good
        if good:
            acc.ok()
    acc.sample({"many_components": case})


def _fast_check(acc, case, tag, sem, out, n_reported, side):
    """isolated one-voxel components: every foreground voxel must carry its own label out of 1..n"""
    out = np.asarray(out)
    n = int(np.count_nonzero(sem))
    if not np.array_equal(out != 0, sem != 0):
        acc.violation("C05:foreground_changed", case, f"{tag} [{side}]: foreground changed ({n} -> {int(np.count_nonzero(out))} voxels)")
        return False
    labs = np.unique(out[out != 0]).astype(np.int64)
    if labs.size != n or (n and (labs[0] != 1 or labs[-1] != n)):
        acc.violation("C05:labels_not_1_to_n", case, f"{tag} [{side}]: {labs.size} distinct labels (min {labs[:1]}, max {labs[-1:]}) for {n} isolated components")
        return False
    if int(n_reported) != n:
        acc.violation("C05:count_wrong", case, f"{tag} [{side}]: reported {n_reported} instances, there are {n}")
        return False
    return True


def _neg(case, acc):
    i = case["i"]
    digs = [(i // 3**j) % 3 - 1 for j in range(4)]
    acc.case("neg", i)
    if min(digs) >= 0:
        return
    for dt in ("int8", "int16", "int32", "int64"):
        for side in ("pred", "ref"):
            a = np.array(digs, dtype=dt)
            b = np.array([0, 1, 1, 0], dtype=dt)
            p, r = (a, b) if side == "pred" else (b, a)
            for backend in BACKENDS:
                acc.step()
                acc.state("neg", i, dt, side, backend)
                try:
                    make_approximator(backend).approximate_instances(SemanticPair(p.copy(), r.copy()))
                except Exception:
                    acc.ok()
                    continue
                acc.violation("C05:negative_accepted", {**case, "dtype": dt, "side": side, "backend": backend}, f"semantic map {digs} ({dt}, {side}) with a negative value was accepted")
