"""C06 - Dice, IoU, RVD and clDice equal their set-theoretic definitions.

Exhaustive enumeration of small label-array pairs x reference label x prediction selector, of all mask
pairs on small grids x mask dtypes, and of run-length volumes across 8/16-bit counter boundaries; every call
goes to the real Metric objects and is compared with exact rational set formulas.
"""
from __future__ import annotations

import itertools
import math

import numpy as np

from .. import refmodel as rm
from .. import scopes as sc
from ..lib import Metric

ID = "C06"
LEVEL = "model_checking"
RULE = (
    "all pairs of label arrays of G1(3,3), G1(4,2) (thorough: G1(4,3), G2(2,2,3), G3(1,2,2,3) x 64 refs) x reference label in {1..4} x "
    "prediction selector in all non-empty subsets of {1..4} (python ints, numpy ints, lists) + absent labels outside the dtype range (l+2^bits) for uint8/int8/uint16; all mask pairs of small 1-D/2-D/3-D grids x "
    "mask dtypes without selection; run-length volumes RLE(s) with lengths in {1,255,256,257,65535,65536}; clDice on 2-D/3-D mask pairs; histories: all ordered pairs of G1(4,2)/G2(2,2,2) reference contents x 2 of 4 predictions x ref label x selector ([1], [1,2], none = binary masks): call, overwrite the reference in place, call, overwrite the prediction in place, call, restore, call, edit again, call - on the same two array objects. "
    "non-trivial = selected masks intersect and differ; distinct by (metric family, selected mask pair)"
)
ASSUMPTIONS = [
    "clDice: skimage.morphology.skeletonize(_3d) is the trusted skeleton; only its use is checked",
    "value comparison only where the quotient is defined (both-empty / empty reference for RVD / empty skeleton excluded)",
    "calls passing only one of the two selectors, or selecting label 0, are outside the documented contract",
]
BUDGET = {"quick": 200, "thorough": 3000}

SUBSETS = [list(c) for n in range(1, 5) for c in itertools.combinations((1, 2, 3, 4), n)]
MASK_DTYPES = ("bool", "uint8", "int8", "uint16", "int64", "float32")


def blocks(tier):
    B = []
    # --- label arrays with selection
    lab_scopes = [((3,), 3, None), ((4,), 2, None)]
    if tier == "thorough":
        lab_scopes += [((4,), 3, None), ((2, 2), 3, None), ((1, 2, 2), 3, 64)]
    for shape, k, nref in lab_scopes:
        n = sc.grid_count(shape, k)
        nr = n if nref is None else nref
        for lo, hi in sc.ranges(n, max(1, 120 // nr)):
            B.append(("lab", shape, k, nref, lo, hi))
    # --- long selector lists (up to every label) on arrays whose label ids are spread widely, integer and float dtypes
    for lo, hi in sc.ranges(len(WIDE_REFS) * len(WIDE_PREDS), 4):
        B.append(("wide", lo, hi))
    # --- histories on the same array objects: call, edit the array in place, call again
    for lo, hi in sc.ranges(81, 2):
        B.append(("hist", lo, hi))
    # --- masks without selection
    mask_scopes = [((6,), MASK_DTYPES), ((2, 3), MASK_DTYPES), ((2, 2, 2), ("bool", "uint8"))]
    if tier == "thorough":
        mask_scopes += [((3, 3), MASK_DTYPES), ((2, 2, 2), MASK_DTYPES[2:])]
    for shape, dts in mask_scopes:
        n = sc.grid_count(shape, 1)
        for lo, hi in sc.ranges(n, max(1, int(1.5 / (n * len(dts) * 75e-6)))):
            B.append(("mask", shape, dts, lo, hi))
    # --- run-length volumes
    s = 2 if tier == "quick" else 3
    n = sc.rle_count(s)
    for lo, hi in sc.ranges(n, 60):
        B.append(("rle", s, lo, hi))
    # --- clDice
    cl_scopes = [((3, 3), 64), ((2, 2, 2), 64)]
    if tier == "thorough":
        cl_scopes = [((3, 3), None), ((2, 2, 2), None), ((3, 4), 128)]
    for shape, nref in cl_scopes:
        n = sc.grid_count(shape, 1)
        for lo, hi in sc.ranges(n, 16):
            B.append(("cl", shape, nref, lo, hi))
    return B


WIDE_N = 48
# every label occurs on several voxels (instances are not single voxels), up to 24 distinct labels per array
WIDE_PREDS = [[(i * 7 + k) % 24 + 1 for i in range(WIDE_N)] for k in (0, 5)] + [[(i // 2) + 1 for i in range(WIDE_N)], [(i // 4) % 12 + 1 for i in range(WIDE_N)], [1 + (i % 3) * 11 for i in range(WIDE_N)]]
WIDE_REFS = [[(i // 12) + 1 for i in range(WIDE_N)], [1] * 24 + [0] * 24, [(i % 4) + 1 for i in range(WIDE_N)]]
WIDE_SCALES = (1, 1000, 65537)
WIDE_DTYPES = ("int64", "uint32", "float32", "float64")


def _ref_indices(n, nref):
    """a fixed, evenly spread set of reference indices (full product with all predictions)"""
    if nref is None or nref >= n:
        return range(n)
    step = n / nref
    return sorted({int(i * step + step / 2) % n for i in range(nref)} | {0, n - 1})


def run_block(block, acc):
    kind = block[0]
    if kind == "lab":
        _, shape, k, nref, lo, hi = block
        n = sc.grid_count(shape, k)
        refs = list(_ref_indices(n, nref))
        for i in range(lo, hi):
            for j in refs:
                run_case({"kind": "lab", "shape": list(shape), "k": k, "pi": i, "ri": j}, acc)
    elif kind == "mask":
        _, shape, dts, lo, hi = block
        n = sc.grid_count(shape, 1)
        for i in range(lo, hi):
            for j in range(n):
                run_case({"kind": "mask", "shape": list(shape), "dtypes": list(dts), "pi": i, "ri": j}, acc)
    elif kind == "hist":
        for i in range(block[1], block[2]):
            for j in range(81):
                run_case({"kind": "hist", "r0": i, "r1": j}, acc)
    elif kind == "wide":
        for q in range(block[1], block[2]):
            run_case({"kind": "wide", "p": q % len(WIDE_PREDS), "r": q // len(WIDE_PREDS)}, acc)
    elif kind == "rle":
        _, s, lo, hi = block
        for i in range(lo, hi):
            run_case({"kind": "rle", "s": s, "i": i}, acc)
    elif kind == "cl":
        _, shape, nref, lo, hi = block
        n = sc.grid_count(shape, 1)
        refs = list(_ref_indices(n, nref))
        for i in range(lo, hi):
            for j in refs:
                run_case({"kind": "cl", "shape": list(shape), "pi": i, "ri": j}, acc)


# ------------------------------------------------------------------------------------------------ judging
def _call(acc, case, what, fn):
    acc.step()
    try:
        return True, fn()
    except (ZeroDivisionError, FloatingPointError):
        return False, "zerodiv"
    except Exception as e:
        return False, e


def _judge_counts(acc, case, tag, nX, nY, nI, got, fam):
    """got: dict metric -> (ok, value); X = reference, Y = prediction"""
    exp = {}
    if nX + nY > 0:
        exp["DSC"] = (2 * nI) / (nX + nY)
        exp["IOU"] = nI / (nX + nY - nI)
    if nX > 0:
        exp["RVD"] = (nY - nX) / nX
    for m, e in exp.items():
        ok, v = got[m]
        if not ok:
            acc.violation(f"C06:{fam}:{m}:raised", case, f"{tag}: {m} raised {v!r} although defined (|ref|={nX},|pred|={nY},|I|={nI})")
            continue
        v = float(v)
        if v != e:
            acc.violation(f"C06:{fam}:{m}:value", case, f"{tag}: {m}={v!r} expected {e!r} (|ref|={nX},|pred|={nY},|I|={nI})")
        else:
            acc.ok()
    if "DSC" in exp and "IOU" in exp and got["DSC"][0] and got["IOU"][0]:
        d, i = float(got["DSC"][1]), float(got["IOU"][1])
        if not (0.0 <= d <= 1.0 and 0.0 <= i <= 1.0):
            acc.violation(f"C06:{fam}:range", case, f"{tag}: dice={d} iou={i} outside [0,1]")
        if abs(d - 2 * i / (1 + i)) > 1e-12:
            acc.violation(f"C06:{fam}:dice_iou_law", case, f"{tag}: dice={d} != 2*iou/(1+iou) with iou={i}")
        ident = nX == nY == nI and nX > 0
        if (d == 1.0) != ident or (i == 1.0) != ident:
            acc.violation(f"C06:{fam}:one_iff_identical", case, f"{tag}: dice={d} iou={i} identical={ident}")


METS = ("DSC", "IOU", "RVD")


def run_case(case, acc):
    kind = case["kind"]
    if kind == "lab":
        shape, k = tuple(case["shape"]), case["k"]
        pred = sc.grid(case["pi"], shape, k)
        ref = sc.grid(case["ri"], shape, k)
        acc.case("lab", shape, k, case["pi"], case["ri"])
        if acc.evaluations % 997 == 1:
            acc.sample({"kind": "lab", "pred": pred.tolist(), "ref": ref.tolist(), "selectors": "ref 1..4 x all subsets of {1,2,3,4}"})
        pv, rv = rm.voxsets(pred), rm.voxsets(ref)
        empty = frozenset()
        for dt in ("uint8", "int64") if (case["pi"] + case["ri"]) % 7 == 0 else ("uint8",):
            P, R = pred.astype(dt), ref.astype(dt)
            for rl in (1, 2, 3, 4):
                X = rv.get(rl, empty)
                for sel in SUBSETS:
                    Y = frozenset().union(*[pv.get(s, empty) for s in sel])
                    forms = [list(sel)]
                    if len(sel) == 1:
                        forms += [sel[0], np.int64(sel[0])]
                    else:
                        forms += [[np.uint8(s) for s in sel]]
                    nX, nY, nI = len(X), len(Y), len(X & Y)
                    acc.state("sel", shape, sorted(X), sorted(Y))
                    if 0 < nI and X != Y:
                        acc.nontriv("ov", shape, sorted(X), sorted(Y))
                    for form in forms:
                        rform = np.uint8(rl) if not isinstance(form, list) and not isinstance(form, int) else rl
                        got = {m: _call(acc, case, m, lambda m=m: Metric[m](R, P, rform, form)) for m in METS}
                        acc.outcome(tuple(str(got[m][1]) for m in METS))
                        tag = f"dtype={dt} ref_label={rl} pred_sel={form!r}"
                        _judge_counts(acc, {**case, "dtype": dt, "ref_label": rl, "sel": sel}, tag, nX, nY, nI, got, "sel")
                    # symmetry of Dice / IoU on the selected masks (exchange the roles of the arrays)
                    if len(sel) == 1:
                        for m in ("DSC", "IOU"):
                            ok1, a = _call(acc, case, m, lambda: Metric[m](R, P, rl, sel[0]))
                            ok2, b = _call(acc, case, m, lambda: Metric[m](P, R, sel[0], rl))
                            if ok1 and ok2 and float(a) != float(b):
                                acc.violation(f"C06:sel:{m}:symmetry", {**case, "ref_label": rl, "sel": sel}, f"{m}(X,Y)={a} != {m}(Y,X)={b}")
        # absent labels that do not fit the array dtype (they must select nothing, not wrap onto a present label)
        for dt in ("uint8", "int8", "uint16"):
            if k > np.iinfo(dt).max:
                continue
            P, R = pred.astype(dt), ref.astype(dt)
            span = 2 ** (8 * np.dtype(dt).itemsize)
            for rl in (1, 2):
                X = rv.get(rl, empty)
                for base in (1, 2):
                    for form, present in ((base + span, []), ([base + span], []), ([3, base + span], [3]), ([base, base + 256 * span], [base]), (np.int64(base + span), [])):
                        Y = frozenset().union(*[pv.get(s_, empty) for s_ in present]) if present else empty
                        nX, nY, nI = len(X), len(Y), len(X & Y)
                        got = {m: _call(acc, case, m, lambda m=m: Metric[m](R, P, rl, form)) for m in METS}
                        acc.state("oor", shape, sorted(X), sorted(Y))
                        _judge_counts(acc, {**case, "dtype": dt, "ref_label": rl, "sel": repr(form)}, f"dtype={dt} ref_label={rl} out-of-range pred_sel={form!r}", nX, nY, nI, got, "sel_out_of_range")
                # reference label beyond the dtype: selects nothing
                Y = pv.get(1, empty)
                got = {m: _call(acc, case, m, lambda m=m: Metric[m](R, P, 1 + span, [1])) for m in METS}
                _judge_counts(acc, {**case, "dtype": dt, "ref_label": 1 + span, "sel": [1]}, f"dtype={dt} out-of-range ref_label={1 + span}", 0, len(Y), 0, got, "ref_out_of_range")
    elif kind == "mask":
        shape = tuple(case["shape"])
        pm = sc.grid(case["pi"], shape, 1)
        rmk = sc.grid(case["ri"], shape, 1)
        acc.case("mask", shape, case["pi"], case["ri"])
        X, Y = rm.foreground(rmk), rm.foreground(pm)
        nX, nY, nI = len(X), len(Y), len(X & Y)
        acc.state("mask", shape, case["pi"], case["ri"])
        if 0 < nI and X != Y:
            acc.nontriv("ovm", shape, case["pi"], case["ri"])
        if acc.evaluations % 4999 == 1:
            acc.sample({"kind": "mask", "pred": pm.tolist(), "ref": rmk.tolist(), "dtypes": case["dtypes"]})
        for dt in case["dtypes"]:
            P, R = pm.astype(dt), rmk.astype(dt)
            got = {m: _call(acc, case, m, lambda m=m: Metric[m](R, P)) for m in METS}
            acc.outcome(tuple(str(got[m][1]) for m in METS))
            _judge_counts(acc, {**case, "dtypes": [dt]}, f"mask dtype={dt}", nX, nY, nI, got, "mask")
            for m in ("DSC", "IOU"):
                ok2, b = _call(acc, case, m, lambda: Metric[m](P, R))
                if got[m][0] and ok2 and float(got[m][1]) != float(b):
                    acc.violation(f"C06:mask:{m}:symmetry", {**case, "dtypes": [dt]}, f"{m}(X,Y)={got[m][1]} != {m}(Y,X)={b}")
            if dt in ("bool", "uint8") and len(shape) >= 2:
                # memory layouts of the two masks (Fortran order, negative strides, strided views; same and mixed)
                for lp, lr in (("F", "F"), ("F", "C"), ("C", "F"), ("rev", "strided")):
                    PL, RL = sc.apply_layout(P, lp), sc.apply_layout(R, lr)
                    gotl = {m: _call(acc, case, m, lambda m=m: Metric[m](RL, PL)) for m in METS}
                    _judge_counts(acc, {**case, "dtypes": [dt], "layout": [lp, lr]}, f"mask dtype={dt} layouts pred={lp} ref={lr}", nX, nY, nI, gotl, "mask_layout")
            if dt in ("bool", "uint8"):
                for form, sel_present in (([1], True), ([2], False), ([1, 2], True), (2, False)):
                    got = {m: _call(acc, case, m, lambda m=m: Metric[m](R, P, 1, form)) for m in METS}
                    nY2 = nY if sel_present else 0
                    nI2 = nI if sel_present else 0
                    _judge_counts(acc, {**case, "dtypes": [dt], "sel": repr(form)}, f"mask dtype={dt} with selection ref=1 pred={form!r}", nX, nY2, nI2, got, "mask_sel")
    elif kind == "rle":
        pred, ref, segs = sc.rle_pair(case["i"], case["s"])
        acc.case("rle", case["s"], case["i"])
        if acc.evaluations % 499 == 1:
            acc.sample({"kind": "rle", "segments(pred_label,ref_label,length)": segs})
        # with selection (labels 1,2) and as masks without selection, for every uint dtype counter width
        for rl in (1, 2):
            for sel in ([1], [2], [1, 2]):
                nX = sum(l for p, r, l in segs if r == rl)
                nY = sum(l for p, r, l in segs if p in sel)
                nI = sum(l for p, r, l in segs if r == rl and p in sel)
                acc.state("rle", nX, nY, nI)
                if 0 < nI and (nX != nI or nY != nI):
                    acc.nontriv("rle", nX, nY, nI)
                got = {m: _call(acc, case, m, lambda m=m: Metric[m](ref, pred, rl, list(sel))) for m in METS}
                acc.outcome(tuple(str(got[m][1]) for m in METS))
                _judge_counts(acc, {**case, "ref_label": rl, "sel": sel}, f"rle ref={rl} sel={sel}", nX, nY, nI, got, "rle_sel")
        nX = sum(l for p, r, l in segs if r != 0)
        nY = sum(l for p, r, l in segs if p != 0)
        nI = sum(l for p, r, l in segs if r != 0 and p != 0)
        for dt in ("uint8", "bool", "uint16", "int8"):
            P, R = (pred != 0).astype(dt), (ref != 0).astype(dt)
            got = {m: _call(acc, case, m, lambda m=m: Metric[m](R, P)) for m in METS}
            _judge_counts(acc, {**case, "dtypes": [dt]}, f"rle mask dtype={dt}", nX, nY, nI, got, "rle_mask")
    elif kind == "cl":
        _cl_case(case, acc)
    elif kind == "hist":
        _hist_case(case, acc)
    elif kind == "wide":
        _wide_case(case, acc)


def _wide_case(case, acc):
    """selector lists of every length 1..24 (prefixes and suffixes of the label set, every second label) on 24-voxel arrays,
    label ids multiplied by 1 / 1000 / 65537, integer and float label arrays"""
    bp, br = WIDE_PREDS[case["p"]], WIDE_REFS[case["r"]]
    acc.case("wide", case["p"], case["r"])
    labels = sorted(set(bp))
    sels = []
    for L in range(1, len(labels) + 1):
        sels.append(labels[:L])
        sels.append(labels[-L:])
    sels.append(labels[::2])
    sels.append(labels[1::2] + [97, 98, 99])
    sels.append(labels + labels[:3])  # duplicates in the list
    if acc.evaluations % 5 == 1:
        acc.sample({"kind": "wide", "pred_labels": bp, "ref_labels": br, "scales": WIDE_SCALES, "dtypes": WIDE_DTYPES, "n_selector_lists": len(sels)})
    for scale in WIDE_SCALES:
        for dt in WIDE_DTYPES:
            if dt == "float32" and scale == 65537:
                continue  # ids beyond 2**24 are not exactly representable in float32
            P = (np.array(bp, dtype=np.int64) * scale).astype(dt)
            R = (np.array(br, dtype=np.int64) * scale).astype(dt)
            for rl in sorted(set(br) - {0})[:2]:
                X = frozenset(i for i, v in enumerate(br) if v == rl)
                for sel in sels:
                    Y = frozenset(i for i, v in enumerate(bp) if v in set(sel))
                    nX, nY, nI = len(X), len(Y), len(X & Y)
                    form = [int(v * scale) for v in sel]
                    got = {m: _call(acc, case, m, lambda m=m: Metric[m](R, P, int(rl * scale), form)) for m in METS}
                    acc.state("wide", case["p"], case["r"], scale, rl, tuple(sel))
                    if len(sel) >= 8 and 0 < nI:
                        acc.nontriv("wide", case["p"], case["r"], rl, tuple(sel))
                    _judge_counts(acc, {**case, "scale": scale, "dtype": dt, "ref_label": rl, "sel": sel}, f"wide ids x{scale} dtype={dt} ref={rl} list of {len(sel)} labels", nX, nY, nI, got, "long_list")


HIST_PREDS = ([1, 1, 0, 2], [1, 2, 2, 0], [2, 1, 1, 1], [0, 0, 1, 2])


def _hist_case(case, acc):
    """the same two array objects are used for a sequence of calls; between calls their contents are overwritten in place
    (reference first, then prediction, then reference back) - every call must reflect the current contents"""
    i, j = case["r0"], case["r1"]
    shape = (4,) if (i + j) % 2 == 0 else (2, 2)
    acc.case("hist", i, j)
    c0, c1 = sc.grid(i, shape, 2), sc.grid(j, shape, 2)
    if i == j:
        return
    for dt in ("uint8", "int64") if (i + j) % 5 == 0 else ("uint8",):
        for a in ((i + j) % 4, (i + j + 2) % 4):
            p0, p1 = HIST_PREDS[a], HIST_PREDS[(a + 1) % len(HIST_PREDS)]
            for rl in (1, 2):
                for sel in ([1], [1, 2], None):
                    # without selection the arguments are binary masks
                    prep = (lambda x: (np.asarray(x) != 0).astype(dt)) if sel is None else (lambda x: np.asarray(x).astype(dt))
                    if sel is None and rl == 2:
                        continue
                    R = prep(c0).copy()
                    P = prep(np.array(p0).reshape(shape)).copy()
                    steps = (("first", None, None), ("ref_edited", "R", c1), ("pred_edited", "P", np.array(p1).reshape(shape)), ("ref_restored", "R", c0), ("ref_edited_again", "R", c1))
                    for name, which, content in steps:
                        if which == "R":
                            R[...] = prep(content)
                        elif which == "P":
                            P[...] = prep(content)
                        if sel is None:
                            X, Y = rm.foreground(R), rm.foreground(P)
                            got = {m: _call(acc, case, m, lambda m=m: Metric[m](R, P)) for m in METS}
                        else:
                            X = rm.voxsets(R).get(rl, frozenset())
                            pv = rm.voxsets(P)
                            Y = frozenset().union(*[pv.get(s_, frozenset()) for s_ in sel])
                            got = {m: _call(acc, case, m, lambda m=m: Metric[m](R, P, rl, list(sel))) for m in METS}
                        nX, nY, nI = len(X), len(Y), len(X & Y)
                        acc.state("hist", shape, name, sorted(X), sorted(Y))
                        if name != "first" and 0 < nI and X != Y:
                            acc.nontriv("hist", i, j, a, rl, repr(sel), name)
                        acc.outcome(tuple(str(got[m][1]) for m in METS))
                        _judge_counts(acc, {**case, "dtype": dt, "pred": a, "ref_label": rl, "sel": sel, "step": name}, f"history step {name} (same array objects, edited in place) dtype={dt} ref_label={rl} sel={sel}", nX, nY, nI, got, "history")


_SKEL: dict = {}


def _skel(mask):
    key = (mask.shape, mask.tobytes())
    if key not in _SKEL:
        from skimage.morphology import skeletonize, skeletonize_3d

        s = skeletonize(mask) if mask.ndim == 2 else skeletonize_3d(mask)
        _SKEL[key] = rm.foreground(np.asarray(s) != 0)
        if len(_SKEL) > 20000:
            _SKEL.clear()
    return _SKEL[key]


def _cl_case(case, acc):
    shape = tuple(case["shape"])
    pm = sc.grid(case["pi"], shape, 1)
    rmk = sc.grid(case["ri"], shape, 1)
    acc.case("cl", shape, case["pi"], case["ri"])
    X, Y = rm.foreground(rmk), rm.foreground(pm)
    if not X or not Y:
        acc.count("cl_undefined_empty")
        return
    sX, sY = _skel(rmk.astype(bool)), _skel(pm.astype(bool))
    if not sX or not sY:
        acc.count("cl_undefined_empty_skeleton")
        return
    tprec = len(Y & sX) / len(sX)
    tsens = len(X & sY) / len(sY)
    if tprec + tsens == 0:
        acc.count("cl_undefined_zero_sum")
        return
    exp = 2 * tprec * tsens / (tprec + tsens)
    acc.state("cl", shape, case["pi"], case["ri"])
    if 0 < exp < 1:
        acc.nontriv("cl", shape, case["pi"], case["ri"])
    if acc.evaluations % 1999 == 1:
        acc.sample({"kind": "clDice", "pred": pm.tolist(), "ref": rmk.tolist(), "expected": exp})
    variants = [("bool", None), ("uint8", None), ("uint8", (1, 1)), ("uint8", (1, [1]))]
    for dt, sel in variants:
        P, R = pm.astype(dt), rmk.astype(dt)
        if sel is None:
            ok, v = _call(acc, case, "clDSC", lambda: Metric.clDSC(R, P))
        else:
            ok, v = _call(acc, case, "clDSC", lambda: Metric.clDSC(R, P, sel[0], sel[1]))
        acc.outcome(str(v))
        if not ok:
            acc.violation("C06:cl:raised", {**case, "variant": [dt, sel]}, f"clDice raised {v!r} although defined")
        elif not math.isclose(float(v), exp, rel_tol=1e-12, abs_tol=1e-12):
            acc.violation("C06:cl:value", {**case, "variant": [dt, sel]}, f"clDice={float(v)!r} expected {exp!r} (dtype={dt}, sel={sel})")
        else:
            acc.ok()
