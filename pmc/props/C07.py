"""C07 - ASSD equals the mean of the two directed average surface distances.

All pairs of non-empty masks on the stated small 1-D/2-D/3-D grids (objects necessarily touch the array border, also on
opposite faces; shapes with singleton axes included) are given to the real Metric.ASSD and compared with a brute-force
definition; each pair is also embedded in zero frames and re-cropped, and run through the matched-instance pipeline.
"""
from __future__ import annotations

import numpy as np

from .. import refmodel as rm
from .. import scopes as sc
from ..lib import Metric, make_evaluator, observe

ID = "C07"
LEVEL = "model_checking"
RULE = (
    "all ordered pairs of non-empty masks of G1(6,1), G2(2,3,1), G2(3,1,1), G3(1,2,3,1), G3(2,1,3,1), G3(2,3,1,1) with embedding in frames of width 1 and 3 and "
    "through the MATCHED pipeline; all pairs of G2(3,3,1) x 128 refs, G2(2,4,1), G3(2,2,2,1) x 128 refs, G3(1,3,3,1) x 64 refs (direct call + frame 1); every pair also with the masks in Fortran order, as transposed views and with negative / non-unit strides (same and mixed); "
    "far family: every pair of non-empty subsets (<= 4 voxels in 1-D/2-D, <= 2 in 3-D) of the 2^d corner block at the origin and of the 2^d corner block at each of the 2^d corners of arrays (4,4) (5,5) (3,7) (10,10) (2,12) (3,3,3) (4,4,4) (2,5,5) (6,6,6) (12,) and the long arrays (130,) (200,) (300,) (2,190) (260,2) (2,2,190) (70000,) [thorough also (16,16) (7,9) (3,20) (8,8,8) (3,4,9) (30,) (190,190) (300,2,2) (2,66000)] - the nearest partner lies beyond the longest edge, and in the long arrays beyond 127 / 181 / 255 / 65535 voxels along one axis; diagonal staircases of length 4..12 (2-D) / 4..7 (3-D) against blobs at either end and in the off corners; each as bool, swapped, uint8 and in a frame of width 1; "
    "thorough: G2(3,3,1)^2, G3(2,2,2,1)^2, G2(3,4,1) x 256, G3(2,2,3,1) x 128, G1(8,1)^2. non-trivial = the two borders differ; distinct by mask pair"
)
ASSUMPTIONS = ["brute-force distances with math.sqrt/fsum; comparison to 1e-9 relative", "masks given as bool and as uint8/int64 0-1 arrays"]
BUDGET = {"quick": 200, "thorough": 1800}


def blocks(tier):
    B = []
    full = [((6,), None), ((2, 3), None), ((3, 1), None), ((1, 2, 3), None), ((2, 1, 3), None), ((2, 3, 1), None)]
    direct = [((3, 3), 128), ((2, 4), None), ((2, 2, 2), 128), ((1, 3, 3), 64)]
    if tier == "thorough":
        full += [((1, 6), None), ((8,), None)]
        direct = [((3, 3), None), ((2, 4), None), ((2, 2, 2), None), ((1, 3, 3), None), ((3, 4), 256), ((2, 2, 3), 128)]
    for shape, nref in full:
        n = sc.grid_count(shape, 1)
        for lo, hi in sc.ranges(n, 8):
            B.append(("full", shape, nref, lo, hi))
    for shape, nref in direct:
        n = sc.grid_count(shape, 1)
        nr = n if nref is None else nref
        for lo, hi in sc.ranges(n, max(1, 4000 // nr)):
            B.append(("direct", shape, nref, lo, hi))
    # sparse objects far apart in larger arrays: the nearest partner border voxel is farther away than the longest
    # array edge (diagonal), objects sit in different corners; long thin diagonal objects
    for shape in FAR_SHAPES if tier == "quick" else FAR_SHAPES + FAR_SHAPES_THOROUGH:
        for corner in range(2 ** len(shape)):
            B.append(("far", shape, corner))
    B.append(("stairs",))
    return B


# the long shapes put the nearest partner beyond 127 / 181 / 255 / 65 535 voxels along one axis (narrow offset or squared-offset types)
FAR_SHAPES = [(4, 4), (5, 5), (3, 7), (10, 10), (2, 12), (3, 3, 3), (4, 4, 4), (2, 5, 5), (6, 6, 6), (12,), (130,), (200,), (300,), (2, 190), (260, 2), (2, 2, 190), (70000,)]
FAR_SHAPES_THOROUGH = [(16, 16), (7, 9), (3, 20), (8, 8, 8), (3, 4, 9), (30,), (190, 190), (300, 2, 2), (2, 66000)]


def _corner_subsets(shape, corner, maxk):
    """non-empty subsets (at most maxk voxels) of the 2^d block in the given corner of the array"""
    import itertools

    d = len(shape)
    block = []
    for off in itertools.product(*[range(min(2, n)) for n in shape]):
        block.append(tuple((n - 1 - o) if (corner >> ax) & 1 else o for ax, (n, o) in enumerate(zip(shape, off))))
    block = sorted(set(block))
    out = []
    for k in range(1, min(maxk, len(block)) + 1):
        out += [frozenset(c) for c in itertools.combinations(block, k)]
    return out


def _arr(shape, S):
    a = np.zeros(shape, dtype=bool)
    for c in S:
        a[c] = True
    return a


def _brute_sets(P, R):
    import math

    bP, bR = rm.border(P), rm.border(R)

    def directed(bf, bt):
        return math.fsum(math.sqrt(min(sum((a - b) ** 2 for a, b in zip(p, q)) for q in bt)) for p in bf) / len(bf)

    return (directed(bP, bR) + directed(bR, bP)) / 2.0, bP == bR


def _run_sparse(case, acc, shape, P, R, tagkey):
    acc.case(*tagkey)
    exp, same_border = _brute_sets(P, R)
    acc.state(*tagkey)
    if not same_border:
        acc.nontriv(*tagkey)
    pm, rmk = _arr(shape, P), _arr(shape, R)
    ok = True
    for what, a, b in (("far_value", rmk, pm), ("far_swapped", pm, rmk), ("far_uint8", rmk.astype(np.uint8), pm.astype(np.uint8)), ("far_frame1", np.pad(rmk, 1), np.pad(pm, 1))):
        v = _assd(acc, case, what, a, b)
        if v is None or not rm.close(v, exp):
            ok = False
            if v is not None:
                acc.violation(f"C07:{what}", case, f"{what}: ASSD={v!r}, brute-force definition gives {exp!r} (shape={list(shape)}, pred voxels={sorted(P)}, ref voxels={sorted(R)})")
    acc.outcome(round(exp, 9))
    if ok:
        acc.ok()


def _stairs_cases():
    out = []
    for L in range(4, 13):
        stair = frozenset((i, i) for i in range(L)) | frozenset((i, i + 1) for i in range(L - 1))
        for blob in (frozenset({(0, 0)}), frozenset({(0, 0), (0, 1), (1, 0), (1, 1)}), frozenset({(L - 1, L - 1), (L - 2, L - 1)}), frozenset({(L - 1, 0)}), frozenset({(0, L - 1), (1, L - 1)})):
            out.append(((L, L), stair, blob))
        if L <= 7:
            st3 = frozenset((i, i, i) for i in range(L))
            for blob in (frozenset({(0, 0, 0)}), frozenset({(L - 1, 0, 0)}), frozenset({(L - 1, L - 1, L - 1), (L - 1, L - 1, L - 2)})):
                out.append(((L, L, L), st3, blob))
    return out


def ref_indices(n, nref):
    if nref is None or nref >= n:
        return list(range(1, n))
    step = n / nref
    return sorted({max(1, int(i * step + step / 2) % n) for i in range(nref)} | {n - 1})


def run_block(block, acc):
    if block[0] == "far":
        _, shape, corner = block
        d = len(shape)
        maxk = 4 if d <= 2 else 2
        A = _corner_subsets(shape, 0, maxk)
        for i in range(len(A)):
            for j in range(len(_corner_subsets(shape, corner, maxk))):
                run_case({"kind": "far", "shape": list(shape), "corner": corner, "pi": i, "ri": j}, acc)
        return
    if block[0] == "stairs":
        for k in range(len(_stairs_cases())):
            run_case({"kind": "stairs", "k": k}, acc)
        return
    kind, shape, nref, lo, hi = block
    n = sc.grid_count(shape, 1)
    for i in range(max(lo, 1), hi):
        for j in ref_indices(n, nref):
            run_case({"kind": kind, "shape": list(shape), "pi": i, "ri": j}, acc)


_B: dict = {}


def _sets(shape, i):
    key = (shape, i)
    if key not in _B:
        if len(_B) > 50000:
            _B.clear()
        S = rm.foreground(sc.grid(i, shape, 1))
        _B[key] = (S, rm.border(S))
    return _B[key]


def brute(shape, pi, ri):
    P, bP = _sets(shape, pi)
    R, bR = _sets(shape, ri)

    def directed(bf, bt):
        import math

        return math.fsum(math.sqrt(min(sum((a - b) ** 2 for a, b in zip(p, q)) for q in bt)) for p in bf) / len(bf)

    return (directed(bP, bR) + directed(bR, bP)) / 2.0, bP == bR


def _assd(acc, case, tag, ref, pred, *sel):
    acc.step()
    try:
        return float(Metric.ASSD(ref, pred, *sel))
    except Exception as e:
        acc.violation(f"C07:raised:{type(e).__name__}", case, f"{tag}: ASSD raised {e!r}")
        return None


def run_case(case, acc):
    if case["kind"] == "far":
        shape = tuple(case["shape"])
        maxk = 4 if len(shape) <= 2 else 2
        P = _corner_subsets(shape, 0, maxk)[case["pi"]]
        R = _corner_subsets(shape, case["corner"], maxk)[case["ri"]]
        return _run_sparse(case, acc, shape, P, R, ("far", shape, case["corner"], case["pi"], case["ri"]))
    if case["kind"] == "stairs":
        shape, P, R = _stairs_cases()[case["k"]]
        return _run_sparse(case, acc, shape, P, R, ("stairs", case["k"]))
    shape = tuple(case["shape"])
    pi, ri = case["pi"], case["ri"]
    pm, rmk = sc.grid(pi, shape, 1), sc.grid(ri, shape, 1)
    acc.case(case["kind"], shape, pi, ri)
    exp, same_border = brute(shape, pi, ri)
    acc.state(shape, pi, ri)
    if not same_border:
        acc.nontriv(shape, pi, ri)
    if acc.evaluations % 3001 == 1:
        acc.sample({"pred": pm.tolist(), "ref": rmk.tolist(), "expected_assd": exp})
    ok = True

    def judge(v, what, c2=None):
        nonlocal ok
        if v is None:
            ok = False
            return
        if not rm.close(v, exp):
            ok = False
            acc.violation(f"C07:{what}", c2 or case, f"{what}: ASSD={v!r}, brute-force definition gives {exp!r} (pred={pm.tolist()}, ref={rmk.tolist()})")

    v = _assd(acc, case, "bool", rmk.astype(bool), pm.astype(bool))
    judge(v, "value")
    acc.outcome(round(exp, 9))
    if v is not None:
        if v < 0:
            acc.violation("C07:negative", case, f"ASSD={v}")
            ok = False
        if (v == 0.0) != same_border and (abs(v) < 1e-12) != same_border:
            acc.violation("C07:zero_iff_equal_borders", case, f"ASSD={v} but borders equal={same_border}")
            ok = False
        w = _assd(acc, case, "swapped", pm.astype(bool), rmk.astype(bool))
        if w is not None and not rm.close(v, w):
            acc.violation("C07:symmetry", case, f"ASSD(ref,pred)={v} != ASSD(pred,ref)={w}")
            ok = False
    # other mask dtypes and label selection
    judge(_assd(acc, case, "uint8", rmk.astype(np.uint8), pm.astype(np.uint8)), "value_uint8")
    judge(_assd(acc, case, "sel", (rmk * 3).astype(np.uint8), (pm * 2).astype(np.int64).astype(np.uint8), 3, 2), "value_label_selection")
    # memory layouts of the two masks (Fortran order, transposed view, negative strides, strided view; also mixed)
    if len(shape) >= 2:
        for lp, lr in (("F", "F"), ("F", "C"), ("C", "F"), ("rev", "strided"), ("strided", "rev")):
            judge(_assd(acc, case, f"layout {lp}/{lr}", sc.apply_layout(rmk.astype(bool), lr), sc.apply_layout(pm.astype(bool), lp)), f"value_layout_{lp}_{lr}", {**case, "layout": [lp, lr]})
        judge(_assd(acc, case, "transposed views", np.ascontiguousarray(rmk.T.astype(bool)).T, np.ascontiguousarray(pm.T.astype(bool)).T), "value_transposed_view")
    # embedding in a larger array (frame 1; full scopes also frame 3 and asymmetric offsets)
    frames = [1] if case["kind"] == "direct" else [1, 3]
    for fw in frames:
        pe, re_ = np.pad(pm, fw), np.pad(rmk, fw)
        judge(_assd(acc, case, f"frame{fw}", re_.astype(bool), pe.astype(bool)), f"embedding_frame{fw}", {**case, "frame": fw})
    if case["kind"] == "full":
        pad = [(2, 0) if ax % 2 == 0 else (0, 1) for ax in range(len(shape))]
        pe, re_ = np.pad(pm, pad), np.pad(rmk, pad)
        judge(_assd(acc, case, "offset", re_.astype(bool), pe.astype(bool)), "embedding_offset", {**case, "pad": pad})
        # tight crop to the joint bounding box of a framed version
        pe, re_ = np.pad(pm, 2), np.pad(rmk, 2)
        nz = np.nonzero(pe | re_)
        sl = tuple(slice(int(a.min()), int(a.max()) + 1) for a in nz)
        judge(_assd(acc, case, "crop", re_[sl].astype(bool), pe[sl].astype(bool)), "tight_crop")
        # matched-instance pipeline (per-instance crop) for the one-instance case, on the tight array and on a framed one
        for fw in (0, 3):
            pe, re_ = np.pad(pm, fw).astype(np.uint8), np.pad(rmk, fw).astype(np.uint8)
            acc.step()
            try:
                ev = make_evaluator("MATCHED", instance_metrics=("ASSD",), global_metrics=("ASSD",))
                res = ev.evaluate(pe * 5, re_ * 5, verbose=False)["ungrouped"][0]
                o = observe(res, metrics=("ASSD",))
            except Exception as e:
                acc.violation(f"C07:pipeline_raised:{type(e).__name__}", {**case, "frame": fw}, f"pipeline raised {e!r}")
                ok = False
                continue
            lst = o["list_ASSD"]
            if not isinstance(lst, list) or len(lst) != 1:
                acc.violation("C07:pipeline_list", {**case, "frame": fw}, f"pipeline list {lst}")
                ok = False
            else:
                judge(lst[0], f"pipeline_instance_frame{fw}", {**case, "frame": fw})
            judge(o["global_bin_assd"] if isinstance(o["global_bin_assd"], float) else None, f"pipeline_global_frame{fw}", {**case, "frame": fw})
    if ok:
        acc.ok()
