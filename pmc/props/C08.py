"""C08 - zero-true-positive cases report exactly what the edge-case handler prescribes.

All 625 four-tuples (5 results x 4 scenarios) per metric - assigned so that the four metrics of one handler always
carry different tuples - x 5 empty-list-std values x every scenario realisation x input type go through the real
evaluate(); tp/fp/fn, sq_<m> and sq_<m>_std must be exactly the configured values. With tp > 0 the handler must have
no influence.
"""
from __future__ import annotations

import math

import numpy as np

from .. import scopes as sc
from ..lib import ECR_NAMES, ECR_VALUE, make_evaluator, observe, same_obs, same_value

ID = "C08"
LEVEL = "model_checking"
RULE = (
    "handlers: for i in 0..624, metric m gets the 4-tuple number (i + 157*rank(m)) mod 625 over {INF,NAN,ZERO,ONE,NONE}^4 (every metric sees all 625 tuples, metrics of one handler differ) x 5 "
    "empty_list_std values; inputs: scenarios {no instances, empty prediction, empty reference, disjoint (equal and unequal instance counts 3 vs 1, 1 vs 2), overlapping below the threshold / different labels, all instances failing a decision threshold} x "
    "{1-D, 2-D, 3-D} x input type {SEMANTIC, UNMATCHED, MATCHED}; last clause: 10 inputs with tp > 0 (thorough: every tp>0 table of CT(2,2,1) x 3 input types) under all 3125 handlers vs the default handler. "
    "non-trivial = the scenario's configured values differ between at least two scenarios of that handler; distinct by (handler, input)"
)
ASSUMPTIONS = ["only handlers that define every evaluated metric (DSC, IoU, ASSD, RVD) are in scope, as the statement says", "pq for a None/inf aggregate is not judged (the statement lists tp/fp/fn, sq and sq_std)"]
BUDGET = {"quick": 200, "thorough": 1500}
METS = ("DSC", "IOU", "ASSD", "RVD")
STDS = ("NAN", "INF", "ZERO", "ONE", "NONE")
SCEN_IDX = {"NO_INSTANCES": 0, "EMPTY_PRED": 1, "EMPTY_REF": 2, "NORMAL": 3}


def tuple_of(t):
    return [ECR_NAMES[(t // 5**j) % 5] for j in range(4)]


def handler_cfg(i, std):
    return {"std": std, "metrics": {m: tuple_of((i + 157 * r) % 625) for r, m in enumerate(METS)}}


def blocks(tier):
    B = []
    for lo, hi in sc.ranges(625, 5):
        B.append(("zero", lo, hi))
    for lo, hi in sc.ranges(625, 25):
        B.append(("tp", tier, lo, hi))
    return B


def _embed(p1, r1, dim):
    """place the 1-D patterns along the last axis of a dim-dimensional array"""
    p1, r1 = np.array(p1, dtype=np.uint8), np.array(r1, dtype=np.uint8)
    if dim == 1:
        return p1, r1
    shape = (3, len(p1)) if dim == 2 else (2, 3, len(p1))
    P, R = np.zeros(shape, dtype=np.uint8), np.zeros(shape, dtype=np.uint8)
    P[(0,) * (dim - 1)] = p1
    R[(0,) * (dim - 1)] = r1
    return P, R


def realisations(itype):
    """(name, scenario, pred pattern, ref pattern, n_pred, n_ref, matcher, decision)"""
    thr = ["thr", "IOU", 0.5, False] if itype != "MATCHED" else None
    lab2 = 1 if itype == "SEMANTIC" else 2
    out = [
        ("none", "NO_INSTANCES", [0] * 7, [0] * 7, 0, 0, thr, None),
        ("empty_pred", "EMPTY_PRED", [0] * 7, [1, 1, 0, lab2, 0, 0, 0], 0, 2, thr, None),
        ("empty_ref", "EMPTY_REF", [1, 0, lab2, lab2, 0, 0, 0], [0] * 7, 2, 0, thr, None),
    ]
    # unequal instance counts without any match (fp and fn must not be exchanged)
    if itype == "MATCHED":
        out += [("disjoint_3v1", "NORMAL", [1, 0, 2, 0, 3, 0, 0], [0, 0, 0, 0, 0, 4, 4], 3, 1, None, None), ("disjoint_1v2", "NORMAL", [1, 1, 0, 0, 0, 0, 0], [0, 0, 2, 0, 3, 3, 0], 1, 2, None, None)]
    else:
        lab3 = 1 if itype == "SEMANTIC" else 3
        out += [("disjoint_3v1", "NORMAL", [1, 0, lab2, 0, lab3, 0, 0], [0, 0, 0, 0, 0, 0, 1], 3, 1, thr, None), ("disjoint_1v2", "NORMAL", [1, 1, 0, 0, 0, 0, 0], [0, 0, 0, lab2, 0, lab3, lab3], 1, 2, thr, None)]
    if itype == "MATCHED":
        out += [
            ("disjoint", "NORMAL", [1, 1, 0, 0, 0, 0, 0], [0, 0, 0, 0, 2, 2, 0], 1, 1, None, None),
            ("other_label", "NORMAL", [1, 1, 1, 0, 0, 0, 0], [0, 2, 2, 2, 0, 0, 0], 1, 1, None, None),
            ("decision_fail", "NORMAL", [1, 1, 0, 0, 3, 3, 0], [0, 1, 1, 0, 0, 3, 3], 2, 2, None, ["IOU", 0.9]),
        ]
    else:
        out += [
            ("disjoint", "NORMAL", [1, 1, 0, 0, 0, 0, 0], [0, 0, 0, 0, 1, 1, 0], 1, 1, thr, None),
            ("below_threshold", "NORMAL", [1, 1, 0, 0, lab2, lab2, 0], [0, 1, 1, 0, 0, lab2, lab2], 2, 2, thr, None),
            ("decision_fail", "NORMAL", [1, 1, 0, 0, lab2, lab2, 0], [0, 1, 1, 0, 0, lab2, lab2], 2, 2, ["thr", "IOU", 0.1, False], ["IOU", 0.9]),
        ]
    return out


TP_INPUTS = [
    ([1, 1, 0, 0], [1, 1, 0, 0]), ([1, 1, 1, 0], [1, 1, 0, 0]), ([1, 1, 0, 2], [1, 1, 0, 2]), ([1, 1, 0, 2], [1, 1, 0, 0]), ([1, 0, 0, 0], [1, 1, 1, 0]),
    ([1, 1, 2, 2], [1, 1, 1, 2]), ([0, 1, 1, 0], [0, 1, 1, 2]), ([1, 1, 1, 1], [1, 1, 1, 1]), ([2, 2, 0, 1], [2, 2, 0, 1]), ([1, 1, 0, 2], [1, 0, 0, 2]),
]


def run_block(block, acc):
    if block[0] == "zero":
        _, lo, hi = block
        for i in range(lo, hi):
            for std in STDS:
                for itype in ("SEMANTIC", "UNMATCHED", "MATCHED"):
                    for dim in (1, 2, 3):
                        for rname in [r[0] for r in realisations(itype)]:
                            run_case({"kind": "zero", "i": i, "std": std, "itype": itype, "dim": dim, "real": rname}, acc)
    else:
        _, tier, lo, hi = block
        for i in range(lo, hi):
            for std in STDS:
                if tier == "quick":
                    for j in range(len(TP_INPUTS)):
                        run_case({"kind": "tp", "i": i, "std": std, "input": j, "itype": "UNMATCHED" if j % 2 else "MATCHED"}, acc)
                else:
                    for t in range(sc.ct_count(2, 2, 1)):
                        for itype in ("UNMATCHED", "MATCHED", "SEMANTIC"):
                            run_case({"kind": "tpct", "i": i, "std": std, "t": t, "itype": itype}, acc)


_DEFAULT: dict = {}


def run_case(case, acc):
    i, std, itype = case["i"], case["std"], case["itype"]
    hc = handler_cfg(i, std)
    if case["kind"] == "zero":
        acc.case("zero", i, std, itype, case["dim"], case["real"])
        real = next(r for r in realisations(itype) if r[0] == case["real"])
        name, scen, p1, r1, n_pred, n_ref, matcher, decision = real
        pred, ref = _embed(p1, r1, case["dim"])
        tag = f"handler#{i} std={std} {itype} {case['dim']}-D {name}"
        acc.step()
        try:
            ev = make_evaluator(itype, matcher=matcher, backend="default" if itype == "SEMANTIC" else "none", decision=decision, handler=hc)
            res = ev.evaluate(pred.copy(), ref.copy(), verbose=False)["ungrouped"][0]
            obs = observe(res, metrics=METS, with_global=False)
        except Exception as e:
            acc.violation(f"C08:raised:{type(e).__name__}:{scen}", case, f"{tag}: evaluate raised {e!r}")
            return
        acc.state("zero", i, std, itype, case["dim"], name)
        vals = {m: hc["metrics"][m] for m in METS}
        if any(len(set(v)) > 1 for v in vals.values()):
            acc.nontriv(i, std, itype, case["dim"], name)
        if acc.evaluations % 9973 == 1:
            acc.sample({"handler": hc, "input_type": itype, "scenario": scen, "realisation": name, "pred": pred.tolist(), "ref": ref.tolist()})
        ok = True
        if obs["tp"] != 0 or obs["fp"] != n_pred or obs["fn"] != n_ref:
            acc.violation(f"C08:counts:{name}", case, f"{tag}: tp/fp/fn={obs['tp']}/{obs['fp']}/{obs['fn']} expected 0/{n_pred}/{n_ref}")
            ok = False
        for m in METS:
            exp = ECR_VALUE[hc["metrics"][m][SCEN_IDX[scen]]]
            if not same_value(obs["sq_" + m], exp, exact=True):
                others = [s for s, k in SCEN_IDX.items() if same_value(ECR_VALUE[hc["metrics"][m][k]], obs["sq_" + m], exact=True)]
                acc.violation(f"C08:sq:{scen}", case, f"{tag}: sq_{m}={obs['sq_' + m]!r} but the handler assigns {exp!r} to {scen} for {m} (value matches scenarios {others})")
                ok = False
            es = ECR_VALUE[std]
            if not same_value(obs["std_" + m], es, exact=True):
                acc.violation(f"C08:std:{scen}", case, f"{tag}: sq_{m}_std={obs['std_' + m]!r} but empty_list_std is {std}")
                ok = False
        acc.outcome(tuple(repr(obs["sq_" + m]) for m in METS), repr(obs["std_IOU"]))
        # history A, B, A: a second, differently configured handler / evaluator is built and used; the first evaluator must still
        # report its own handler's values (handlers must not share their tables)
        if case["dim"] == 1:
            j = (i + 313) % 625
            hc2 = handler_cfg(j, STDS[(STDS.index(std) + 2) % len(STDS)])
            acc.step(2)
            try:
                ev2 = make_evaluator(itype, matcher=matcher, backend="default" if itype == "SEMANTIC" else "none", decision=decision, handler=hc2)
                ev2.evaluate(pred.copy(), ref.copy(), verbose=False)
                obs2 = observe(ev.evaluate(pred.copy(), ref.copy(), verbose=False)["ungrouped"][0], metrics=METS, with_global=False)
                d = same_obs(obs, obs2)
                if d:
                    acc.violation(f"C08:first_evaluator_changed_by_second_handler", {**case, "second_handler": j}, f"{tag}: after an evaluator with handler#{j} was built and used, the first evaluator reports different values in {d} (e.g. sq_{METS[0]}={obs2['sq_' + METS[0]]!r}, first call {obs['sq_' + METS[0]]!r})")
                    ok = False
            except Exception as e:
                acc.violation(f"C08:raised_in_history:{type(e).__name__}", {**case, "second_handler": j}, f"{tag}: A, B, A history raised {e!r}")
                ok = False
        # the same scenario seen through a single-instance class group on label 1 (one instance per side if present at all)
        if case["dim"] == 1 and itype != "MATCHED" and name in ("none", "empty_pred", "empty_ref"):
            from panoptica.utils.label_group import LabelGroup
            from panoptica.utils.segmentation_class import SegmentationClassGroups

            acc.step()
            try:
                evg = make_evaluator(itype, matcher=matcher, backend="default" if itype == "SEMANTIC" else "none", decision=decision, handler=hc,
                                     groups=SegmentationClassGroups({"solo": LabelGroup([1], single_instance=True), "rest": LabelGroup([2, 3, 4])}))
                og = observe(evg.evaluate(pred.copy(), ref.copy(), verbose=False)["solo"][0], metrics=METS, with_global=False)
                e_fp, e_fn = int(np.any(pred == 1)), int(np.any(ref == 1))
                if (og["tp"], og["fp"], og["fn"]) != (0, e_fp, e_fn):
                    acc.violation(f"C08:single_instance_group:counts:{name}", case, f"{tag} through a single-instance group: tp/fp/fn={og['tp']}/{og['fp']}/{og['fn']} expected 0/{e_fp}/{e_fn}")
                    ok = False
                for m in METS:
                    exp = ECR_VALUE[hc["metrics"][m][SCEN_IDX[scen]]]
                    if not same_value(og["sq_" + m], exp, exact=True):
                        acc.violation(f"C08:single_instance_group:sq:{scen}", case, f"{tag} through a single-instance group: sq_{m}={og['sq_' + m]!r} but the handler assigns {exp!r} to {scen}")
                        ok = False
            except Exception as e:
                acc.violation(f"C08:single_instance_group:raised:{type(e).__name__}", case, f"{tag} through a single-instance group raised {e!r}")
                ok = False
        if ok:
            acc.ok()
        return
    # ---- tp > 0: the handler must not matter
    if case["kind"] == "tp":
        p1, r1 = TP_INPUTS[case["input"]]
        pred, ref = np.array(p1, dtype=np.uint8), np.array(r1, dtype=np.uint8)
        key = ("tp", case["input"], itype)
    else:
        pred, ref = sc.ct_arrays(sc.ct_table(case["t"], 2, 2, 1))
        key = ("tpct", case["t"], itype)
    acc.case(case["kind"], i, std, key)
    matcher = None if itype == "MATCHED" else ["thr", "IOU", 0.5, False]
    backend = "default" if itype == "SEMANTIC" else "none"

    def run(h):
        ev = make_evaluator(itype, matcher=matcher, backend=backend, handler=h, global_metrics=("DSC", "IOU"))
        return observe(ev.evaluate(pred.copy(), ref.copy(), verbose=False)["ungrouped"][0], metrics=METS)

    try:
        if key not in _DEFAULT:
            _DEFAULT[key] = run(None)
        base = _DEFAULT[key]
        if base["tp"] == 0:
            return
        acc.step()
        obs = run(hc)
    except Exception as e:
        acc.violation(f"C08:tp:raised:{type(e).__name__}", case, f"handler#{i} std={std}: evaluate raised {e!r}")
        return
    acc.state("tp", i, std, key)
    acc.nontriv("tp", i, std, key)
    d = same_obs(base, obs)
    if d:
        acc.violation("C08:handler_influences_tp_positive", case, f"handler#{i} std={std} {itype} pred={pred.tolist()} ref={ref.tolist()}: with tp={base['tp']} > 0 the result differs from the default-handler result in {d}")
    else:
        acc.ok()
