"""C09 - results do not depend on label values, label order or integer dtype.

Metamorphic exploration: every base pair is evaluated once with canonical labels; every relabelled / re-typed variant
must report the same metrics whenever the matching is uniquely determined (otherwise the variant must still be an
admissible result of the reference model).
"""
from __future__ import annotations

import itertools

import numpy as np

from .. import e2e, meta
from .. import scopes as sc

ID = "C09"
LEVEL = "model_checking"
RULE = (
    "factored: bases = all tables of CT(2,2,1) and CT(1,1,4) x per dtype all injective maps of the <=2 labels of a side into LABq={1,2,128,255,256,65535,65536,70000} within the dtype, applied to "
    "the prediction only, the reference only (uint8/16/32) and both sides (all dtypes) (UNMATCHED: threshold IoU .5 with all three families; threshold Dice at the lowest breakpoint and merge IoU .5 with the both-sides family; MATCHED: joint map); "
    "labels beyond 2^20 ({1048577, 1048581, 7}, all ordered pairs; same / crossed / one side only) on every factored base in uint32; full product pred-map x ref-map on 12 fixed bases (uint8: all three matchers, uint32: threshold IoU .5); generators on G1(4,2)^2 (thorough: + CT(2,2,2), G2(2,2,2)^2): 4 (thorough 8) single-side maps to the top of each dtype range / past the next dtype boundary + all four dtypes with unchanged labels; "
    "big: 6 segment layouts (no background voxel in the prediction / the reference / both / one label only / reversed label order / background everywhere) with 300 and 70000 voxels, 1-D and 2-D, x all four dtypes + 7 label maps on either side and both, UNMATCHED / MATCHED / SEMANTIC / merge; near ties: two candidates with IoU 1/2 and N/(2N+1), N in {1000, 100000}, x all injective maps of the 3 prediction labels into {1,2,3,top} x 3 reference maps x 4 matchers x uint8/16/32; "
    "SEMANTIC: G2(2,2,2) x 27 refs x 6 label maps x unsigned and signed dtypes x backend {default,cc3d}. thorough adds CT(2,2,2) to the factored family, G2(2,2,2)^2 generators and label 2^24-1. "
    "non-trivial = at least one candidate pair and a label value >= 128 involved; distinct by (base, map, dtype, configuration)"
)
ASSUMPTIONS = ["guard: equality is demanded only when no two competing candidate pairs have equal score; otherwise the variant must be an admissible result (one-to-one threshold matcher) or is skipped and counted"]
BUDGET = {"quick": 240, "thorough": 2400}

LABQ = (1, 2, 128, 255, 256, 65535, 65536, 70000)
BIG = (1048577, 1048581, 7)
MATCHERS = (["thr", "IOU", 0.5, False], ["thr", "DSC", "LOW", False], ["merge", "IOU", 0.5])
FULL_BASES = [
    ([1, 1, 1, 0, 0], [1, 1, 1, 0, 0]), ([1, 1, 1, 1, 2], [1, 1, 1, 0, 0]), ([1, 1, 2, 2, 0], [1, 1, 1, 2, 0]), ([1, 1, 1, 2, 2, 2], [1, 1, 1, 1, 2, 2]),
    ([1, 0, 2, 2, 2], [1, 1, 0, 2, 2]), ([1, 1, 1, 1], [2, 2, 2, 1]), ([2, 2, 2, 1, 1], [0, 2, 2, 1, 1]), ([1, 2, 0, 0], [0, 0, 1, 2]),
    ([1, 1, 1, 2], [1, 1, 1, 0]), ([0, 1, 1, 1, 1], [2, 2, 1, 1, 1]), ([1, 1, 2, 2, 2, 2], [1, 1, 2, 2, 2, 0]), ([1, 1, 1, 1, 1, 2], [0, 1, 1, 1, 1, 1]),
]
GEN_MAPS = [("uint8", {1: 255, 2: 254}), ("uint8", {1: 254, 2: 255}), ("uint8", {1: 128, 2: 1}), ("uint16", {1: 256, 2: 255}), ("uint16", {1: 65535, 2: 1}),
            ("uint32", {1: 65536, 2: 65535}), ("uint32", {1: 70000, 2: 65536}), ("uint64", {1: 65536, 2: 70000})]
SEM_MAPS = [("uint8", {1: 2, 2: 1}), ("uint8", {1: 255, 2: 1}), ("int8", {1: 127, 2: 3}), ("uint16", {1: 256, 2: 65535}), ("int32", {1: 65536, 2: 70000}), ("int64", {1: 70000, 2: 1}), ("uint64", {1: 65535, 2: 65536})]


BIG_SIZES = (300, 70000)
# (pred segments, ref segments) as fractions of the size; labels 1, 2; 0 = background
BIG_BASES = [
    ("no background in the prediction", [(1, 0.6), (2, 0.4)], [(1, 0.5), (0, 0.2), (2, 0.3)]),
    ("no background in the reference", [(0, 0.1), (1, 0.5), (2, 0.3), (0, 0.1)], [(1, 0.55), (2, 0.45)]),
    ("no background at all", [(1, 0.6), (2, 0.4)], [(1, 0.62), (2, 0.38)]),
    ("no background, one label only", [(1, 1.0)], [(1, 0.7), (2, 0.3)]),
    ("background on both sides", [(0, 0.1), (1, 0.5), (2, 0.3), (0, 0.1)], [(0, 0.15), (1, 0.4), (0, 0.1), (2, 0.3), (0, 0.05)]),
    ("no background, largest label first", [(2, 0.6), (1, 0.4)], [(2, 0.5), (1, 0.5)]),
]
BIG_MAPS = [("uint8", {1: 2, 2: 1}), ("uint8", {1: 255, 2: 254}), ("uint8", {1: 128, 2: 255}), ("uint16", {1: 65535, 2: 1}), ("uint16", {1: 256, 2: 65535}), ("uint32", {1: 65536, 2: 70000}), ("uint64", {1: 70000, 2: 65536})]
NEAR_N = (1000, 100000)
NEAR_MATCHERS = (["thr", "IOU", 0.3, False], ["thr", "DSC", 0.5, False], ["thr", "IOU", 0.3, True], ["merge", "IOU", 0.3])


def _segs_array(segs, size, nd):
    out = []
    for k, (lab, frac) in enumerate(segs):
        n = int(round(frac * size)) if k < len(segs) - 1 else size - len(out)
        out += [lab] * n
    a = np.array(out[:size], dtype=np.uint8)
    if nd == 2:
        rows = 15 if size == 300 else 250
        a = a.reshape(rows, size // rows)
    return a


def _near_arrays(N):
    """reference 1 has 2N voxels; prediction 1 covers its first half exactly (IoU 1/2), prediction 2 its second half plus one
    voxel outside (IoU N/(2N+1)); a second, separate reference / prediction pair 3-2 of 5 voxels"""
    pred = [1] * N + [2] * (N + 1) + [0, 0] + [3] * 5 + [0]
    ref = [1] * (2 * N) + [0] * 3 + [2] * 5 + [0]
    return np.array(pred, dtype=np.uint8), np.array(ref, dtype=np.uint8)


def blocks(tier):
    B = []
    facs = [(2, 2, 1), (1, 1, 4)] + ([(2, 2, 2)] if tier == "thorough" else [])
    for P, R, c in facs:
        n = sc.ct_count(P, R, c)
        for lo, hi in sc.ranges(n, 2 if c == 1 else 1):
            B.append(("fac", P, R, c, lo, hi))
    for b in range(len(FULL_BASES)):
        for dt in ("uint8", "uint32"):
            B.append(("full", b, dt))
    n = sc.grid_count((4,), 2)
    for lo, hi in sc.ranges(n, 1):
        B.append(("gen", "g1", lo, hi, tier))
    if tier == "thorough":
        n = sc.ct_count(2, 2, 2)
        for lo, hi in sc.ranges(n, 80):
            B.append(("gen", "ct", lo, hi))
    n = sc.grid_count((2, 2), 2)
    for lo, hi in sc.ranges(n, 2 if tier == "quick" else 1):
        B.append(("sem", tier, lo, hi))
    # arrays with more voxels than an 8-bit / 16-bit counter holds, with and without any background voxel
    for size in BIG_SIZES:
        for b in range(len(BIG_BASES)):
            for nd in (1, 2):
                B.append(("big", size, b, nd))
    # two candidates whose scores differ only in the 4th..7th decimal, the worse one carrying the smaller / the larger label
    for N in NEAR_N:
        for m in range(len(NEAR_MATCHERS)):
            for dt in ("uint8", "uint16", "uint32"):
                B.append(("near", N, m, dt))
    if tier == "thorough":
        for lo, hi in sc.ranges(n, 1):
            B.append(("gen", "g2", lo, hi))
        for b in range(len(FULL_BASES)):
            B.append(("huge", b))
    return B


def run_block(block, acc):
    kind = block[0]
    if kind == "fac":
        _, P, R, c, lo, hi = block
        for i in range(lo, hi):
            run_case({"kind": "fac", "P": P, "R": R, "c": c, "i": i}, acc)
    elif kind == "full":
        run_case({"kind": "full", "b": block[1], "dtype": block[2]}, acc)
    elif kind == "gen":
        fam, lo, hi = block[1], block[2], block[3]
        if fam == "ct":
            for i in range(lo, hi):
                run_case({"kind": "gen", "fam": "ct", "i": i, "tier": "thorough"}, acc)
        else:
            shape = (4,) if fam == "g1" else (2, 2)
            n = sc.grid_count(shape, 2)
            for i in range(lo, hi):
                for j in range(n):
                    run_case({"kind": "gen", "fam": fam, "pi": i, "ri": j, "tier": "thorough" if fam == "g2" else block[4] if len(block) > 4 else "quick"}, acc)
    elif kind == "sem":
        from .C01 import ref_indices

        _, tier, lo, hi = block
        n = sc.grid_count((2, 2), 2)
        for i in range(lo, hi):
            for j in ref_indices(n, 27 if tier == "quick" else None):
                run_case({"kind": "sem", "pi": i, "ri": j}, acc)
    elif kind == "huge":
        run_case({"kind": "huge", "b": block[1]}, acc)
    elif kind == "big":
        run_case({"kind": "big", "size": block[1], "b": block[2], "nd": block[3]}, acc)
    elif kind == "near":
        run_case({"kind": "near", "N": block[1], "m": block[2], "dtype": block[3]}, acc)


def _low_dsc(model):
    vals = sorted({model.rp.score("DSC", p, r) for p, r in model.rp.cands})
    return vals[0] if vals else 0.5


class Base:
    """canonical evaluation of a base pair under the configurations of interest (computed lazily)"""

    def __init__(self, pred, ref):
        self.pred, self.ref = pred, ref
        self.um = e2e.Model(pred, ref, "UNMATCHED")
        self.cache = {}

    def matcher(self, m):
        return [m[0], m[1], _low_dsc(self.um), m[3]] if m[2] == "LOW" else list(m)

    def obs(self, itype, m, backend="none"):
        key = (itype, repr(m), backend)
        if key not in self.cache:
            self.cache[key] = meta.run(itype, m, backend, self.pred.copy(), self.ref.copy())
        return self.cache[key]


def compare(acc, case, base: Base, itype, m, pred, ref, what, backend="none"):
    """evaluate the variant and compare with the base; returns nothing (records)"""
    mm = base.matcher(m) if m is not None else None
    st0, o0, _ = base.obs(itype, mm, backend)
    acc.step()
    st1, o1, steps = meta.run(itype, mm, backend, pred.copy(), ref.copy())
    c2 = {**case, "variant": what, "itype": itype, "matcher": mm, "backend": backend}
    show = (lambda a: a.tolist()) if pred.size <= 64 else (lambda a: f"shape {list(a.shape)} run-lengths {sc.arr_to_case(a).get('__rle__', '...')}"[:300])
    tag = f"{itype} {mm} {what}: pred={show(pred)} ref={show(ref)} dtype={pred.dtype}"
    if st0 == "EXC":
        acc.count("base_raised")
        return
    if st1 == "EXC":
        acc.violation(f"C09:raised:{type(o1).__name__}:{itype}", c2, f"{tag}: evaluate raised {o1!r} while the canonically labelled pair evaluates fine")
        return
    acc.state(itype, repr(mm), pred, ref)
    metric = mm[1] if mm else "IOU"
    model = base.um if itype != "SEMANTIC" else e2e.Model(base.pred, base.ref, "SEMANTIC", backend)
    if model.rp.cands and int(max(pred.max(), ref.max())) >= 128:
        acc.nontriv(itype, repr(mm), pred.tobytes(), ref.tobytes(), str(pred.dtype))
    acc.outcome(o1["tp"], o1["fp"], o1["fn"], repr(o1["list_IOU"]))
    d = meta.diff_obs(o0, o1)
    if not d:
        acc.ok()
        return
    if itype != "MATCHED" and not meta.unique_matching(model, metric):
        if mm[0] == "thr" and not mm[3]:
            vm = e2e.Model(pred, ref, itype, backend)
            if meta.in_admissible(vm, mm, None, o1):
                acc.ok()
                acc.count("tie_reordered_but_admissible")
                return
        else:
            acc.count("skipped_not_unique")
            return
    which = "counts" if any(k in d for k in ("tp", "fp", "fn", "num_ref_instances", "num_pred_instances")) else "values"
    acc.violation(
        f"C09:{which}:{itype}:{pred.dtype}", c2,
        f"{tag}: differs from the canonically labelled evaluation in {d}; canonical tp/fp/fn={o0['tp']}/{o0['fp']}/{o0['fn']} IoU={o0['list_IOU']}, variant tp/fp/fn={o1['tp']}/{o1['fp']}/{o1['fn']} IoU={o1['list_IOU']} global dsc {o0['global_bin_dsc']} vs {o1['global_bin_dsc']}",
    )


def _labels(a):
    return tuple(int(x) for x in np.unique(a) if x)


def run_case(case, acc):
    kind = case["kind"]
    if "variant" in case and "pred" in case:
        # replay of one recorded variant
        base = Base(sc.arr_from_case(case["base_pred"]), sc.arr_from_case(case["base_ref"]))
        compare(acc, {k: v for k, v in case.items() if k not in ("variant",)}, base, case["itype"], case["matcher"], sc.arr_from_case(case["pred"]), sc.arr_from_case(case["ref"]), case["variant"], case.get("backend", "none"))
        return
    if kind == "fac":
        bp, br = sc.ct_arrays(sc.ct_table(case["i"], case["P"], case["R"], case["c"]))
        acc.case("fac", case["P"], case["R"], case["c"], case["i"])
        pl, rl = _labels(bp), _labels(br)
        if not pl or not rl:
            return
        base = Base(bp, br)
        rec = {"base_pred": sc.arr_to_case(bp), "base_ref": sc.arr_to_case(br)}
        if acc.evaluations % 17 == 1:
            acc.sample({"base_pred": bp.tolist(), "base_ref": br.tolist(), "maps": "all injective maps into LABq per dtype, pred only / ref only / both", "matchers": MATCHERS})
        for dt in sc.UDT:
            targets = sc.lab_for(dt, LABQ)
            pmaps = list(sc.injective_maps(pl, targets))
            rmaps = list(sc.injective_maps(rl, targets))
            ident_p, ident_r = {l: l for l in pl}, {l: l for l in rl}
            fam = [(pm, ident_r) for pm in pmaps] + [(ident_p, rm_) for rm_ in rmaps]
            both = []
            for img in itertools.permutations(targets, 2):
                both.append(({l: img[(l - 1) % 2] for l in pl}, {l: img[1 - (l - 1) % 2] for l in rl}))
            for pm, rm_ in (fam + both if dt != "uint64" else both):
                P, R = sc.relabel(bp, pm, dt), sc.relabel(br, rm_, dt)
                rc = {**case, **rec, "pred": sc.arr_to_case(P), "ref": sc.arr_to_case(R)}
                compare(acc, rc, base, "UNMATCHED", MATCHERS[0], P, R, f"pmap={pm} rmap={rm_}")
            for pm, rm_ in both:
                P, R = sc.relabel(bp, pm, dt), sc.relabel(br, rm_, dt)
                rc = {**case, **rec, "pred": sc.arr_to_case(P), "ref": sc.arr_to_case(R)}
                for m in MATCHERS[1:]:
                    compare(acc, rc, base, "UNMATCHED", m, P, R, f"pmap={pm} rmap={rm_}")
            # labels beyond 2**20 (sparse-table territory), crossed between the sides: uint32 only
            if dt == "uint32":
                for img in itertools.permutations(BIG, 2):
                    for pm, rm_ in (({l: img[(l - 1) % 2] for l in pl}, {l: img[1 - (l - 1) % 2] for l in rl}), ({l: img[(l - 1) % 2] for l in pl}, ident_r), (ident_p, {l: img[(l - 1) % 2] for l in rl}),
                                    ({l: img[(l - 1) % 2] for l in pl}, {l: img[(l - 1) % 2] for l in rl})):
                        P, R = sc.relabel(bp, pm, dt), sc.relabel(br, rm_, dt)
                        rc = {**case, **rec, "pred": sc.arr_to_case(P), "ref": sc.arr_to_case(R)}
                        compare(acc, rc, base, "UNMATCHED", MATCHERS[0], P, R, f"pmap={pm} rmap={rm_}")
            # matched input: one joint injective map
            labs = tuple(sorted(set(pl) | set(rl)))
            for jm in sc.injective_maps(labs, targets):
                P, R = sc.relabel(bp, jm, dt), sc.relabel(br, jm, dt)
                rc = {**case, **rec, "pred": sc.arr_to_case(P), "ref": sc.arr_to_case(R)}
                compare(acc, rc, base, "MATCHED", None, P, R, f"joint map={jm}")
    elif kind == "full":
        p, r = FULL_BASES[case["b"]]
        bp, br = np.array(p, dtype=np.uint8), np.array(r, dtype=np.uint8)
        dt = case["dtype"]
        acc.case("full", case["b"], dt)
        base = Base(bp, br)
        rec = {"base_pred": sc.arr_to_case(bp), "base_ref": sc.arr_to_case(br)}
        targets = sc.lab_for(dt, LABQ)
        acc.sample({"full_product_base": [p, r], "dtype": dt, "targets": targets})
        for pm in sc.injective_maps(_labels(bp), targets):
            P = sc.relabel(bp, pm, dt)
            for rm_ in sc.injective_maps(_labels(br), targets):
                R = sc.relabel(br, rm_, dt)
                rc = {**case, **rec, "pred": sc.arr_to_case(P), "ref": sc.arr_to_case(R)}
                for m in (MATCHERS if dt == "uint8" else MATCHERS[:1]):
                    compare(acc, rc, base, "UNMATCHED", m, P, R, f"pmap={pm} rmap={rm_}")
    elif kind == "gen":
        if case["fam"] == "ct":
            bp, br = sc.ct_arrays(sc.ct_table(case["i"], 2, 2, 2))
            acc.case("gen", "ct", case["i"])
        else:
            shape = (4,) if case["fam"] == "g1" else (2, 2)
            bp, br = sc.grid(case["pi"], shape, 2), sc.grid(case["ri"], shape, 2)
            acc.case("gen", case["fam"], case["pi"], case["ri"])
        if not np.any(bp) or not np.any(br):
            return
        base = Base(bp, br)
        rec = {"base_pred": sc.arr_to_case(bp), "base_ref": sc.arr_to_case(br)}
        ident = {1: 1, 2: 2}
        for dt in sc.UDT[1:]:
            P, R = bp.astype(dt), br.astype(dt)
            compare(acc, {**case, **rec, "pred": sc.arr_to_case(P), "ref": sc.arr_to_case(R)}, base, "UNMATCHED", MATCHERS[0], P, R, f"dtype {dt}, labels unchanged")
            compare(acc, {**case, **rec, "pred": sc.arr_to_case(P), "ref": sc.arr_to_case(R)}, base, "MATCHED", None, P, R, f"dtype {dt}, labels unchanged")
        for dt, mp in (GEN_MAPS if case.get("tier") == "thorough" else [GEN_MAPS[k] for k in (0, 2, 4, 5)]):
            for side in ("pred", "ref"):
                P = sc.relabel(bp, mp if side == "pred" else ident, dt)
                R = sc.relabel(br, mp if side == "ref" else ident, dt)
                compare(acc, {**case, **rec, "pred": sc.arr_to_case(P), "ref": sc.arr_to_case(R)}, base, "UNMATCHED", MATCHERS[0], P, R, f"{side} map={mp} dtype={dt}")
            P, R = sc.relabel(bp, mp, dt), sc.relabel(br, mp, dt)
            compare(acc, {**case, **rec, "pred": sc.arr_to_case(P), "ref": sc.arr_to_case(R)}, base, "MATCHED", None, P, R, f"joint map={mp} dtype={dt}")
    elif kind == "sem":
        bp, br = sc.grid(case["pi"], (2, 2), 2), sc.grid(case["ri"], (2, 2), 2)
        acc.case("sem", case["pi"], case["ri"])
        if not np.any(bp) or not np.any(br):
            return
        base = Base(bp, br)
        rec = {"base_pred": sc.arr_to_case(bp), "base_ref": sc.arr_to_case(br)}
        for backend in ("default", "cc3d"):
            for dt, mp in SEM_MAPS:
                P, R = sc.relabel(bp, mp, dt), sc.relabel(br, mp, dt)
                compare(acc, {**case, **rec, "pred": sc.arr_to_case(P), "ref": sc.arr_to_case(R)}, base, "SEMANTIC", MATCHERS[0], P, R, f"semantic map={mp} dtype={dt}", backend)
    elif kind == "big":
        name, ps, rs = BIG_BASES[case["b"]]
        bp, br = _segs_array(ps, case["size"], case["nd"]), _segs_array(rs, case["size"], case["nd"])
        acc.case("big", case["size"], case["b"], case["nd"])
        base = Base(bp, br)
        rec = {"base_pred": sc.arr_to_case(bp), "base_ref": sc.arr_to_case(br)}
        acc.sample({"big_base": name, "voxels": case["size"], "ndim": case["nd"], "pred_segments": ps, "ref_segments": rs})
        ident = {1: 1, 2: 2}
        for dt in sc.UDT:
            P, R = bp.astype(dt), br.astype(dt)
            rc = {**case, **rec, "pred": sc.arr_to_case(P), "ref": sc.arr_to_case(R)}
            compare(acc, rc, base, "UNMATCHED", MATCHERS[0], P, R, f"{name}: dtype {dt}, labels unchanged")
            compare(acc, rc, base, "MATCHED", None, P, R, f"{name}: dtype {dt}, labels unchanged")
            if case["nd"] == 1 or dt in ("uint8", "uint16"):
                compare(acc, rc, base, "SEMANTIC", MATCHERS[0], P, R, f"{name}: dtype {dt}, labels unchanged", "default")
        for dt, mp in BIG_MAPS:
            for side in ("pred", "ref", "both"):
                P = sc.relabel(bp, mp if side != "ref" else ident, dt)
                R = sc.relabel(br, mp if side != "pred" else ident, dt)
                rc = {**case, **rec, "pred": sc.arr_to_case(P), "ref": sc.arr_to_case(R)}
                compare(acc, rc, base, "UNMATCHED", MATCHERS[0], P, R, f"{name}: {side} map={mp} dtype={dt}")
                if side == "both":
                    compare(acc, rc, base, "MATCHED", None, P, R, f"{name}: joint map={mp} dtype={dt}")
                    compare(acc, rc, base, "UNMATCHED", MATCHERS[2], P, R, f"{name}: {side} map={mp} dtype={dt}")
    elif kind == "near":
        bp, br = _near_arrays(case["N"])
        dt = case["dtype"]
        m = NEAR_MATCHERS[case["m"]]
        acc.case("near", case["N"], case["m"], dt)
        base = Base(bp, br)
        rec = {"base_pred": sc.arr_to_case(bp), "base_ref": sc.arr_to_case(br)}
        acc.sample({"near_tie_base": f"N={case['N']}: IoU 1/2 against N/(2N+1)", "matcher": m, "dtype": dt})
        targets = (1, 2, 3, 255) if dt == "uint8" else (1, 2, 3, 65535) if dt == "uint16" else (1, 2, 3, 70000)
        rmaps = [{1: 1, 2: 2}, {1: 2, 2: 1}, {1: targets[3], 2: 1}]
        for pm in sc.injective_maps((1, 2, 3), targets):
            P = sc.relabel(bp, pm, dt)
            for rm_ in rmaps:
                R = sc.relabel(br, rm_, dt)
                rc = {**case, **rec, "pred": sc.arr_to_case(P), "ref": sc.arr_to_case(R)}
                compare(acc, rc, base, "UNMATCHED", m, P, R, f"near tie N={case['N']}: pmap={pm} rmap={rm_}")
    elif kind == "huge":
        p, r = FULL_BASES[case["b"]]
        bp, br = np.array(p, dtype=np.uint8), np.array(r, dtype=np.uint8)
        acc.case("huge", case["b"])
        base = Base(bp, br)
        rec = {"base_pred": sc.arr_to_case(bp), "base_ref": sc.arr_to_case(br)}
        H = 2**24 - 1
        for pm, rm_ in (({1: H, 2: 1}, {1: 1, 2: 2}), ({1: 1, 2: 2}, {1: H, 2: 65536}), ({1: H, 2: 2}, {1: H, 2: 1}), ({1: 65536, 2: H}, {1: 2, 2: H})):
            for dt in ("uint32", "uint64"):
                P, R = sc.relabel(bp, pm, dt), sc.relabel(br, rm_, dt)
                compare(acc, {**case, **rec, "pred": sc.arr_to_case(P), "ref": sc.arr_to_case(R)}, base, "UNMATCHED", MATCHERS[0], P, R, f"pmap={pm} rmap={rm_}")
