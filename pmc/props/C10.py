"""C10 - results are invariant under padding, translation, flips, axis permutation and memory layout.

Metamorphic exploration: the full transformation group TR(d) (flips x axis permutations x padding patterns x layouts) on
small complete / fixed base sets, and the group's generators on large base sets, for every input type. The transformed
pair must report the same counts and IoU/Dice/RVD/ASSD results as the base whenever the matching is uniquely determined.
"""
from __future__ import annotations

import numpy as np

from .. import e2e, meta
from .. import scopes as sc
from .C01 import ref_indices

ID = "C10"
LEVEL = "model_checking"
RULE = (
    "full TR(d) = 2^d flips x d! axis permutations x padding patterns (per axis (0,0),(1,0),(0,3),(3,3); 3-D: (0,0),(3,3)) x layout pairs (prediction, reference) in {(C,C),(F,F),(neg,neg),(strided,strided),(F,C),(C,F),(neg,C),(strided,F)}: "
    "1-D 64 transforms on G1(3,2) x 9 refs (thorough: all pairs); 2-D 1024 transforms on 16 base pairs of G2(2,3,2) (thorough 128 + all of G2(2,2,2)^2 x UNMATCHED); 3-D 3072 transforms on 2 (thorough 16) base pairs of G3(2,2,2,2); x input type {SEMANTIC, UNMATCHED, MATCHED}. "
    "generators (each single flip, transposition, padding pattern alone, all 16 (prediction, reference) layout pairs alone, mixed layouts combined with every axis permutation) on G1(4,2) x 9 refs and G2(2,2,2) x 9 refs (thorough: all refs, + G2(2,3,2) x 27, G3(2,2,2,1) x 27) x {UNMATCHED, SEMANTIC}; generators on single-slice volumes G3(1,2,2,2), G3(2,2,1,2) x 3 refs (thorough 27) x SEMANTIC. "
    "large scenes: three box pairs at the origin corner, the centre and the far corner of extents (41,40,41) (300,300) (130,128,130) (170,160,160) [thorough + (2100,2100)] (beyond 2^16, 2^21, 2^22 voxels) x each single flip, every axis permutation, a mixed layout and flip-all + asymmetric padding x {UNMATCHED, SEMANTIC}. "
    "non-trivial = both sides non-empty with a candidate pair and a non-identity transform; distinct by (base, transform, input type)"
)
ASSUMPTIONS = ["guard: equality only when no two competing candidate pairs tie; otherwise the transformed result must be an admissible result of the reference model"]
BUDGET = {"quick": 240, "thorough": 3000}
MATCHER = ["thr", "IOU", 0.5, False]


def bases2d(n):
    tot = sc.grid_count((2, 3), 2)
    out = []
    step = tot * tot // n
    for q in range(n):
        x = (q * step + 12345) % (tot * tot)
        out.append((x // tot, x % tot))
    return out


def bases3d(n):
    tot = sc.grid_count((2, 2, 2), 2)
    out = []
    step = tot * tot // n
    for q in range(n):
        x = (q * step + 4321) % (tot * tot)
        out.append((x // tot, x % tot))
    return out


# scenes whose objects span extents beyond 2^16 / 2^21 / 2^22 voxels (block-wise / dtype-switching code paths)
LARGE_EXTENTS = [(41, 40, 41), (300, 300), (130, 128, 130), (170, 160, 160), (2100, 2100)]


def large_scene(extent):
    """three (2-D: three) small box pairs: at the origin corner, in the middle and at the far corner; IoUs all different and
    above 1/2; every prediction overlaps exactly one reference (the matching is unique)"""
    nd = len(extent)
    P, R = np.zeros(extent, dtype=np.uint8), np.zeros(extent, dtype=np.uint8)
    anchors = [tuple(0 for _ in extent), tuple(n // 2 - 3 for n in extent), tuple(n - 6 - (1 if ax == nd - 1 else 0) for ax, n in enumerate(extent))]
    for lab, (a, k) in enumerate(zip(anchors, (0, 1, 2)), start=1):
        size = 4 + k
        rs = tuple(slice(x, x + size) for x in a)
        ps = tuple(slice(x + (1 if ax == 0 and k != 1 else 0), x + size + (1 if ax == nd - 1 else 0)) for ax, x in enumerate(a))
        R[rs] = lab
        P[ps] = 4 - lab
    return P, R


def large_transforms(nd):
    ident = tuple(range(nd))
    nopad = tuple((0, 0) for _ in range(nd))
    trs = []
    for ax in range(nd):
        trs.append((tuple(a == ax for a in range(nd)), ident, nopad, "C"))
    import itertools

    for pm in itertools.permutations(range(nd)):
        if pm != ident:
            trs.append((tuple(False for _ in range(nd)), pm, nopad, "C"))
    trs.append((tuple(False for _ in range(nd)), ident, nopad, ("F", "C")))
    trs.append((tuple(True for _ in range(nd)), ident, tuple((1, 0) if a == 0 else (0, 2) for a in range(nd)), "C"))
    return trs


def blocks(tier):
    B = []
    for e, ext in enumerate(LARGE_EXTENTS if tier == "thorough" else LARGE_EXTENTS[:4]):
        for t in range(len(large_transforms(len(ext)))):
            B.append(("large", e, t))
    n1 = sc.grid_count((3,), 2)
    for lo, hi in sc.ranges(n1, 1):
        B.append(("full1", tier, lo, hi))
    for b in range(16 if tier == "quick" else 128):
        B.append(("full2", tier, b))
    for b in range(2 if tier == "quick" else 16):
        for part in range(4):
            B.append(("full3", tier, b, part))
    n = sc.grid_count((4,), 2)
    for lo, hi in sc.ranges(n, 2):
        B.append(("gen", (4,), 2, 9 if tier == "quick" else None, lo, hi))
    n = sc.grid_count((2, 2), 2)
    for lo, hi in sc.ranges(n, 2):
        B.append(("gen", (2, 2), 2, 9 if tier == "quick" else None, lo, hi))
    # 3-D arrays with a singleton axis (single-slice volumes): padding the thin axis makes them 'really' 3-D
    for shape in ((1, 2, 2), (2, 2, 1)):
        n = sc.grid_count(shape, 2)
        for lo, hi in sc.ranges(n, 3):
            B.append(("gen", shape, 2, 3 if tier == "quick" else 27, lo, hi, "SEMANTIC"))
    if tier == "thorough":
        n = sc.grid_count((2, 3), 2)
        for lo, hi in sc.ranges(n, 4):
            B.append(("gen", (2, 3), 2, 27, lo, hi))
        n = sc.grid_count((2, 2, 2), 1)
        for lo, hi in sc.ranges(n, 4):
            B.append(("gen", (2, 2, 2), 1, 27, lo, hi))
        n = sc.grid_count((2, 2), 2)
        for lo, hi in sc.ranges(n, 1):
            B.append(("full2all", lo, hi))
    return B


def run_block(block, acc):
    kind = block[0]
    if kind == "large":
        for itype in ("UNMATCHED", "SEMANTIC"):
            run_case({"kind": "large", "extent": block[1], "t": block[2], "itype": itype}, acc)
    elif kind == "full1":
        _, tier, lo, hi = block
        n = sc.grid_count((3,), 2)
        for i in range(lo, hi):
            for j in ref_indices(n, 9 if tier == "quick" else None):
                for itype in ("SEMANTIC", "UNMATCHED", "MATCHED"):
                    run_case({"kind": "full", "shape": [3], "k": 2, "pi": i, "ri": j, "itype": itype}, acc)
    elif kind == "full2":
        _, tier, b = block
        i, j = bases2d(16 if tier == "quick" else 128)[b]
        for itype in ("SEMANTIC", "UNMATCHED", "MATCHED"):
            run_case({"kind": "full", "shape": [2, 3], "k": 2, "pi": i, "ri": j, "itype": itype}, acc)
    elif kind == "full3":
        _, tier, b, part = block
        i, j = bases3d(2 if tier == "quick" else 16)[b]
        for itype in ("SEMANTIC", "UNMATCHED", "MATCHED"):
            run_case({"kind": "full", "shape": [2, 2, 2], "k": 2, "pi": i, "ri": j, "itype": itype, "part": part}, acc)
    elif kind == "full2all":
        _, lo, hi = block
        n = sc.grid_count((2, 2), 2)
        for i in range(lo, hi):
            for j in range(n):
                run_case({"kind": "full", "shape": [2, 2], "k": 2, "pi": i, "ri": j, "itype": "UNMATCHED"}, acc)
    else:
        shape, k, nref, lo, hi = block[1:6]
        n = sc.grid_count(shape, k)
        for i in range(lo, hi):
            for j in ref_indices(n, nref):
                for itype in (("UNMATCHED", "SEMANTIC") if len(block) < 7 else (block[6],)):
                    run_case({"kind": "gen", "shape": list(shape), "k": k, "pi": i, "ri": j, "itype": itype}, acc)


def run_case(case, acc):
    if case["kind"] == "large":
        shape = LARGE_EXTENTS[case["extent"]]
        bp, br = large_scene(shape)
        case = {**case, "shape": list(shape), "k": 3, "pi": -1, "ri": -1}
    else:
        shape = tuple(case["shape"])
        bp, br = sc.grid(case["pi"], shape, case["k"]), sc.grid(case["ri"], shape, case["k"])
    itype = case["itype"]
    acc.case(case["kind"], shape, case["k"], case["pi"], case["ri"], itype, case.get("part"), case.get("t"))
    nd = len(shape)
    if case["kind"] == "large":
        trs = [large_transforms(nd)[case["t"]]] if "transform" not in case else None
    if case["kind"] == "large" and trs is not None:
        pass
    elif "transform" in case:
        t = case["transform"]
        trs = [(tuple(t[0]), tuple(t[1]), tuple(tuple(x) for x in t[2]), t[3] if isinstance(t[3], str) else tuple(t[3]))]
    elif case["kind"] == "full":
        trs = list(sc.transforms_full(nd))
        if "part" in case:
            trs = trs[case["part"] :: 4]
    else:
        trs = sc.transforms_gen(nd)
    matcher = None if itype == "MATCHED" else MATCHER
    backend = "default" if itype == "SEMANTIC" else "none"
    st0, o0, _ = meta.run(itype, matcher, backend, bp.copy(), br.copy())
    if st0 == "EXC":
        acc.violation(f"C10:base_raised:{type(o0).__name__}", case, f"{itype}: evaluate raised {o0!r} on " + (f"pred={bp.tolist()} ref={br.tolist()}" if bp.size <= 64 else f"large_scene(extent={list(shape)})"))
        return
    model = e2e.Model(bp, br, itype, backend)
    uniq = itype == "MATCHED" or meta.unique_matching(model, "IOU")
    nontriv = bool(model.rp.cands)
    if acc.evaluations % 499 == 1:
        acc.sample({"pred": bp.tolist() if bp.size <= 64 else f"large_scene{shape}", "ref": br.tolist() if bp.size <= 64 else f"large_scene{shape}", "input_type": itype, "n_transforms": len(trs), "example_transform(flip,perm,pad,layout)": [list(map(list, trs[-1][:3])), trs[-1][3]] if False else repr(trs[-1])})
    for fl, pm, pd, ly in trs:
        P, R = sc.apply_transform(bp, fl, pm, pd, ly, 0), sc.apply_transform(br, fl, pm, pd, ly, 1)
        acc.step()
        st1, o1, _ = meta.run(itype, matcher, backend, P, R)
        tr = [list(fl), list(pm), [list(x) for x in pd], ly if isinstance(ly, str) else list(ly)]
        c2 = {**case, "transform": tr}
        tag = f"{itype} flip={fl} perm={pm} pad={pd} layout={ly} base " + (f"pred={bp.tolist()} ref={br.tolist()}" if bp.size <= 64 else f"large_scene(extent={list(shape)})")
        if st1 == "EXC":
            acc.violation(f"C10:raised:{type(o1).__name__}:{ly if isinstance(ly, str) else '-'.join(ly)}", c2, f"{tag}: evaluate raised {o1!r} on the transformed pair")
            continue
        acc.state(itype, P, R, ly)
        if nontriv:
            acc.nontriv(shape, case["pi"], case["ri"], itype, repr(tr))
        acc.outcome(o1["tp"], o1["fp"], o1["fn"], repr(o1["list_IOU"]))
        d = meta.diff_obs(o0, o1)
        if not d:
            acc.ok()
            continue
        if not uniq:
            vm = e2e.Model(np.ascontiguousarray(P), np.ascontiguousarray(R), itype, backend)
            if meta.in_admissible(vm, matcher, None, o1):
                acc.ok()
                acc.count("tie_reordered_but_admissible")
                continue
        which = "counts" if any(k in d for k in ("tp", "fp", "fn", "num_ref_instances", "num_pred_instances")) else "values"
        kind = "layout" if ly not in ("C", ("C", "C")) and not any(fl) and tuple(pm) == tuple(range(nd)) and all(tuple(x) == (0, 0) for x in pd) else "geometry"
        acc.violation(f"C10:{which}:{kind}:{itype}", c2, f"{tag}: differs from the base evaluation in {d}; base tp/fp/fn={o0['tp']}/{o0['fp']}/{o0['fn']} IoU={o0['list_IOU']} ASSD={o0['list_ASSD']}; transformed tp/fp/fn={o1['tp']}/{o1['fp']}/{o1['fn']} IoU={o1['list_IOU']} ASSD={o1['list_ASSD']}")
