"""C11 - exchanging prediction and reference mirrors the result.

Every unordered pair of the stated grids is evaluated in both directions for every input type, one-to-one matcher with
IoU/Dice/ASSD and every threshold class: same tp, same multisets of per-instance IoU/Dice/ASSD, fp and fn exchanged,
RVD r -> -r/(1+r) - whenever the matching is uniquely determined.
"""
from __future__ import annotations

import numpy as np

from .. import e2e, meta
from .. import scopes as sc

ID = "C11"
LEVEL = "model_checking"
RULE = (
    "all unordered pairs {a,b} of G1(4,2) x {UNMATCHED x {IoU,Dice,ASSD} x threshold classes, MATCHED, SEMANTIC x IoU threshold classes}; all unordered pairs of G2(2,2,2) x {UNMATCHED, SEMANTIC(default, cc3d)} x IoU threshold classes "
    "label-value family: 6 fixed bases with labels {1,x} on one side and {1,y} on the other for all (x,y) in a 22-value alphabet around 2^k boundaries x {UNMATCHED, MATCHED}; (thorough: + G1(5,2), G2(2,3,2) x 81 refs, G3(2,2,2,1) pairs x SEMANTIC). non-trivial = both non-empty, a != b, at least one candidate pair; distinct by (pair, configuration)"
)
ASSUMPTIONS = ["guard: equality only when no two competing candidate pairs tie (otherwise both directions must each be admissible results of the reference model)", "RVD compared through r -> -r/(1+r) to 1e-9"]
BUDGET = {"quick": 240, "thorough": 2400}


def blocks(tier):
    B = []
    scopes = [((4,), 2, None, "all"), ((2, 2), 2, None, "iou")]
    if tier == "thorough":
        scopes += [((5,), 2, None, "all"), ((2, 3), 2, 81, "iou"), ((2, 2, 2), 1, None, "sem")]
    for shape, k, nref, mode in scopes:
        n = sc.grid_count(shape, k)
        for lo, hi in sc.ranges(n, 1):
            B.append((shape, k, nref, mode, lo, hi))
    for b in range(len(LAB_BASES)):
        B.append(("lab", b))
    return B


LABV = (1, 2, 3, 4, 5, 15, 16, 17, 50, 51, 84, 85, 86, 127, 128, 129, 254, 255, 256, 257, 65535, 65536)
LAB_BASES = [([1, 1, 1, 2, 2, 0], [1, 1, 0, 2, 2, 2]), ([1, 1, 2, 2], [1, 1, 2, 2]), ([1, 1, 1, 0, 2], [2, 2, 2, 0, 1]), ([1, 2, 2, 2, 0, 0], [1, 1, 2, 2, 2, 0]),
             ([2, 2, 0, 1, 1, 1], [1, 1, 0, 2, 2, 0]), ([1, 1, 1, 1, 2, 2], [2, 2, 1, 1, 1, 1])]


def run_block(block, acc):
    from .C01 import ref_indices

    if block[0] == "lab":
        for x in LABV:
            for y in LABV:
                run_case({"lab": block[1], "x": x, "y": y}, acc)
        return

    shape, k, nref, mode, lo, hi = block
    n = sc.grid_count(shape, k)
    for i in range(lo, hi):
        for j in ref_indices(n, nref):
            if nref is None and j < i:
                continue
            run_case({"shape": list(shape), "k": k, "pi": i, "ri": j, "mode": mode}, acc)


def rvd_mirror(v):
    if v is None:
        return None
    return -v / (1.0 + v) if v != -1.0 else float("inf")


def run_case(case, acc):
    if "lab" in case:
        # label-value family: side a carries labels {1, x}, side b labels {1, y} (asymmetric magnitudes)
        pa, pb = LAB_BASES[case["lab"]]
        dt = "uint32"
        a = sc.relabel(np.array(pa), {1: 1 if case["x"] != 1 else 7, 2: case["x"]}, dt)
        b = sc.relabel(np.array(pb), {1: 1 if case["y"] != 1 else 7, 2: case["y"]}, dt)
        shape = a.shape
        case = {**case, "shape": list(shape), "k": 0, "pi": case["x"], "ri": case["y"], "mode": "lab"}
        acc.case("lab", case["lab"], case["x"], case["y"])
        case.setdefault("cfg", None)
        cfg_list = [("UNMATCHED", ["thr", "IOU", 0.5, False], "none"), ("MATCHED", None, "none")]
    else:
        shape = tuple(case["shape"])
        a, b = sc.grid(case["pi"], shape, case["k"]), sc.grid(case["ri"], shape, case["k"])
        acc.case(shape, case["k"], case["pi"], case["ri"], case["mode"])
        cfg_list = None
    if case.get("cfg"):
        cfgs = [tuple(case["cfg"])]
    elif cfg_list is not None:
        cfgs = cfg_list
    elif "cfg" in case and case["cfg"]:
        cfgs = [tuple(case["cfg"])]
    else:
        cfgs = []
        mode = case["mode"]
        um = e2e.Model(a, b, "UNMATCHED")
        if mode in ("all", "iou"):
            for metric in ("IOU", "DSC", "ASSD") if mode == "all" else ("IOU",):
                for t in e2e.guarded_thresholds(um, metric, um.rp.cands, acc, shape) or [0.5]:
                    cfgs.append(("UNMATCHED", ["thr", metric, t, False], "none"))
            if mode == "all":
                cfgs.append(("MATCHED", None, "none"))
        for backend in ("default", "cc3d") if len(shape) > 1 else ("default",):
            sm = e2e.Model(a, b, "SEMANTIC", backend)
            for t in e2e.guarded_thresholds(sm, "IOU", sm.rp.cands, acc, shape) or [0.5]:
                cfgs.append(("SEMANTIC", ["thr", "IOU", t, False], backend))
    if acc.evaluations % 397 == 1:
        acc.sample({"a": a.tolist(), "b": b.tolist(), "configs": [list(c) for c in cfgs][:8]})
    for itype, matcher, backend in cfgs:
        c2 = {**case, "cfg": [itype, matcher, backend]}
        tag = f"{itype} {matcher} {backend} a={a.tolist()} b={b.tolist()}"
        acc.step(2)
        s1, o1, _ = meta.run(itype, matcher, backend, a.copy(), b.copy())
        s2, o2, _ = meta.run(itype, matcher, backend, b.copy(), a.copy())
        if s1 == "EXC" or s2 == "EXC":
            acc.violation(f"C11:raised:{itype}", c2, f"{tag}: evaluate raised (a,b): {o1 if s1 == 'EXC' else 'ok'!r}; (b,a): {o2 if s2 == 'EXC' else 'ok'!r}")
            continue
        acc.state(itype, repr(matcher), backend, a, b)
        model = e2e.Model(a, b, itype, backend)
        if model.rp.cands and not np.array_equal(a, b):
            acc.nontriv(shape, case["pi"], case["ri"], itype, repr(matcher), backend)
        acc.outcome(o1["tp"], o1["fp"], o1["fn"], o2["fp"], o2["fn"])
        d = meta.diff_obs(o1, o2, rvd_map=rvd_mirror, swap_fp_fn=True)
        if not d:
            acc.ok()
            continue
        metric = matcher[1] if matcher else "IOU"
        if itype != "MATCHED" and not meta.unique_matching(model, metric):
            m2 = e2e.Model(b, a, itype, backend)
            if meta.in_admissible(model, matcher, None, o1) and meta.in_admissible(m2, matcher, None, o2):
                acc.ok()
                acc.count("tie_but_both_admissible")
                continue
        which = "counts" if any(k in d for k in ("tp", "fp", "fn", "num_ref_instances", "num_pred_instances")) else "values"
        acc.violation(f"C11:{which}:{itype}", c2, f"{tag}: exchanging prediction and reference does not mirror the result, differs in {d}: (a as pred) tp/fp/fn={o1['tp']}/{o1['fp']}/{o1['fn']} IoU={o1['list_IOU']} RVD={o1['list_RVD']}; (b as pred) tp/fp/fn={o2['tp']}/{o2['fp']}/{o2['fn']} IoU={o2['list_IOU']} RVD={o2['list_RVD']}")
