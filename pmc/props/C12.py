"""C12 - class groups are evaluated independently and completely.

Differential exploration: for every base pair over labels {0..3}, every group definition (all partitions of {1,2,3},
block kinds plain / merge / single-instance, every block order, several names) and every input type, the result of each
group must equal the ungrouped evaluation of the two arrays restricted to that group (reference-model restriction). Every
definition that omits a label must be rejected on inputs containing it (also negative labels in signed semantic maps).
"""
from __future__ import annotations

import itertools

import numpy as np

from .. import meta
from .. import scopes as sc
from ..lib import make_evaluator, observe

ID = "C12"
LEVEL = "model_checking"
RULE = (
    "group definitions: all 5 partitions of {1,2,3} x per block kind in {plain, merge, single-instance(singletons)} with at most one non-plain block (thorough: any) x every block order x 3 naming schemes "
    "(68 definitions quick); bases: all predictions of G1(3,3) x 6 refs (thorough: G1(3,3) x 24 refs with every kind assignment, G2(2,2,3) x 16) x input type {UNMATCHED, MATCHED, SEMANTIC}; repeated evaluate() on the same arrays; every fourth case additionally with a decision metric (IoU >= 0.6; plain and merge groups judged, whatever group was evaluated before them); every fifth case additionally with labels {1,2,3} -> {300, 2, 65535} and -> {1, 10, 3} in uint16; "
    "rejection: every proper subset S of {1,2,3} as the only group x all pairs of G1(3,3) x input types (must raise iff a label outside S is present), group definitions whose names collide after lower-casing (labels of overwritten groups are undefined), and length-2 maps over {-3..3} "
    "in int8/int64 semantic input (must raise iff a negative or undefined label is present). non-trivial = >= 2 groups and both restricted arrays non-empty for some group; distinct by (pair, definition, input type)"
)
ASSUMPTIONS = [
    "single-instance groups are compared with decision_metric=None (the code's replacement of the decision threshold by 0.0 for such groups is not specified by the statement)",
    "instance metrics DSC, IoU and global DSC are evaluated per group (ASSD/RVD are covered by C01/C07 and do not interact with grouping)",
]
BUDGET = {"quick": 240, "thorough": 2400}
NAMES = (("a", "B c", "x_y"), ("organ", "Lesion", "g-3"), ("1", "2", "3"))


def partitions3():
    return [[(1,), (2,), (3,)], [(1, 2), (3,)], [(1, 3), (2,)], [(2, 3), (1,)], [(1, 2, 3)]]


def definitions(tier):
    """list of definitions; a definition = ordered list of (labels, kind)"""
    out = []
    for part in partitions3():
        kinds_per_block = []
        for blk in part:
            kinds_per_block.append(["plain", "merge"] + (["single"] if len(blk) == 1 else []))
        for kinds in itertools.product(*kinds_per_block):
            if tier == "quick" and sum(1 for k in kinds if k != "plain") > 1:
                continue
            for order in itertools.permutations(range(len(part))):
                out.append([(list(part[i]), kinds[i]) for i in order])
    return out


def blocks(tier):
    B = []
    n = sc.grid_count((3,), 3)
    nd = len(definitions(tier))
    for lo, hi in sc.ranges(n, 1):
        for dlo, dhi in sc.ranges(nd, 17 if tier == "quick" else 40):
            B.append(("diff", tier, (3,), 3, 6 if tier == "quick" else 24, lo, hi, dlo, dhi))
    if tier == "thorough":
        n2 = sc.grid_count((2, 2), 3)
        for lo, hi in sc.ranges(n2, 2):
            B.append(("diff", tier, (2, 2), 3, 16, lo, hi, 0, nd))
    for lo, hi in sc.ranges(n, 4):
        B.append(("reject", lo, hi))
    B.append(("neg",))
    return B


def run_block(block, acc):
    from .C01 import ref_indices

    kind = block[0]
    if kind == "diff":
        _, tier, shape, k, nref, lo, hi, dlo, dhi = block
        n = sc.grid_count(shape, k)
        for i in range(lo, hi):
            for j in ref_indices(n, nref):
                for d in range(dlo, dhi):
                    for itype in ("UNMATCHED", "MATCHED", "SEMANTIC"):
                        run_case({"kind": "diff", "tier": tier, "shape": list(shape), "k": k, "pi": i, "ri": j, "def": d, "itype": itype}, acc)
    elif kind == "reject":
        _, lo, hi = block
        n = sc.grid_count((3,), 3)
        for i in range(lo, hi):
            for j in range(n):
                run_case({"kind": "reject", "pi": i, "ri": j}, acc)
    else:
        vals = (-3, -2, -1, 0, 1, 2, 3)
        for a in itertools.product(vals, repeat=2):
            for b in itertools.product(vals, repeat=2):
                run_case({"kind": "neg", "pred": list(a), "ref": list(b)}, acc)


def make_groups(defn, names):
    from panoptica.utils.label_group import LabelGroup, LabelMergeGroup
    from panoptica.utils.segmentation_class import SegmentationClassGroups

    d = {}
    for idx, (labels, kind) in enumerate(defn):
        nm = names[idx]
        if kind == "plain":
            d[nm] = LabelGroup(list(labels))
        elif kind == "merge":
            d[nm] = LabelMergeGroup(list(labels))
        else:
            d[nm] = LabelGroup(list(labels), single_instance=True)
    return SegmentationClassGroups(d)


def restrict(arr, labels, kind):
    out = np.where(np.isin(arr, labels), arr, 0).astype(arr.dtype)
    if kind == "merge":
        out = (out != 0).astype(arr.dtype)
    return out


_UNGROUPED: dict = {}
MATCHER = ["thr", "IOU", 0.5, False]
IM = ("DSC", "IOU")


def ungrouped(itype, pred, ref, dec=None):
    key = (itype, pred.shape, pred.tobytes(), ref.tobytes(), repr(dec))
    if key not in _UNGROUPED:
        if len(_UNGROUPED) > 200000:
            _UNGROUPED.clear()
        try:
            ev = make_evaluator(itype, matcher=None if itype == "MATCHED" else MATCHER, backend="default" if itype == "SEMANTIC" else "none", instance_metrics=IM, decision=dec)
            res = ev.evaluate(pred.copy(), ref.copy(), verbose=False)["ungrouped"][0]
            _UNGROUPED[key] = ("OK", observe(res, metrics=IM))
        except Exception as e:
            _UNGROUPED[key] = ("EXC", repr(e))
    return _UNGROUPED[key]


def cmp(a, b):
    from ..lib import same_value

    d = []
    for k in a:
        x, y = a[k], b.get(k)
        if isinstance(x, list) and isinstance(y, list):
            if len(x) != len(y) or any(not same_value(p, q, rel=1e-9) for p, q in zip(sorted(x), sorted(y))):
                d.append(k)
        elif not same_value(x, y, rel=1e-9):
            d.append(k)
    return d


LMAP = {1: 300, 2: 2, 3: 65535}  # label values beyond one byte / at the top of uint16, with a gap
LMAP2 = {1: 1, 2: 10, 3: 3}  # a non-contiguous label set whose middle value is the outlier
LMAPS = {True: LMAP, 1: LMAP, 2: LMAP2}


def run_case(case, acc):
    kind = case["kind"]
    if kind == "reject":
        return _reject(case, acc)
    if kind == "neg":
        return _neg(case, acc)
    shape = tuple(case["shape"])
    pred, ref = sc.grid(case["pi"], shape, case["k"]), sc.grid(case["ri"], shape, case["k"])
    itype = case["itype"]
    defn = definitions(case["tier"])[case["def"]]
    if case.get("lmap") is None and "lmap" not in case and (case["pi"] + case["ri"] + case["def"]) % 5 == 0:
        run_case({**case, "lmap": 1}, acc)
        run_case({**case, "lmap": 2}, acc)
    if "dec" not in case and (case["pi"] * 3 + case["ri"] + case["def"]) % 4 == 0:
        run_case({**case, "dec": ["IOU", 0.6]}, acc)
    dec = case.get("dec")
    if case.get("lmap"):
        # unsigned also for semantic input: a single-instance group is evaluated as matched input, which (like ungrouped matched
        # input) only accepts unsigned arrays - signed semantic maps with such a group are rejected consistently by both
        dt = "uint16"
        lm = LMAPS[case["lmap"]]
        pred, ref = sc.relabel(pred, lm, dt), sc.relabel(ref, lm, dt)
        defn = [([lm[l] for l in labels], k) for labels, k in defn]
    names = NAMES[(case["def"] + case["pi"]) % len(NAMES)]
    acc.case("diff", shape, case["pi"], case["ri"], case["def"], itype, case.get("lmap"), repr(dec))
    tag = f"{itype} groups={[(names[i], l, k) for i, (l, k) in enumerate(defn)]} pred={pred.tolist()} ref={ref.tolist()}"
    p0, r0 = pred.copy(), ref.copy()
    acc.step()
    try:
        ev = make_evaluator(itype, matcher=None if itype == "MATCHED" else MATCHER, backend="default" if itype == "SEMANTIC" else "none", instance_metrics=IM, groups=make_groups(defn, names), decision=dec)
        out = ev.evaluate(pred, ref, verbose=False)
        got = {g: observe(r[0], metrics=IM) for g, r in out.items()}
        # a second evaluation of the very same arrays must see the same input
        out2 = ev.evaluate(pred, ref, verbose=False)
        got2 = {g: observe(r[0], metrics=IM) for g, r in out2.items()}
    except Exception as e:
        acc.violation(f"C12:raised:{type(e).__name__}:{itype}", case, f"{tag}: evaluate raised {e!r} although every label belongs to a group")
        return
    acc.state(itype, case["def"], pred, ref)
    ok = True
    if not np.array_equal(pred, p0) or not np.array_equal(ref, r0):
        acc.violation("C12:input_modified", case, f"{tag}: evaluate() modified the caller's arrays (pred now {pred.tolist()}, ref now {ref.tolist()})")
        ok = False
    if sorted(got) != sorted(n.lower() for n in names[: len(defn)]):
        acc.violation("C12:group_names", case, f"{tag}: result groups {sorted(got)}")
        return
    nontriv = 0
    for idx, (labels, gk) in enumerate(defn):
        g = names[idx].lower()
        rp_, rr_ = restrict(p0, labels, gk), restrict(r0, labels, gk)
        if np.any(rp_) and np.any(rr_):
            nontriv += 1
        if dec is not None and gk == "single" and itype != "MATCHED":
            continue  # guard: the decision threshold of single-instance groups for semantic/unmatched input is not specified
        st, exp = ungrouped("MATCHED" if gk == "single" else itype, rp_, rr_, dec)
        if st == "EXC":
            acc.count("ungrouped_reference_raised")
            continue
        for which, o in (("first", got[g]), ("second", got2[g])):
            d = cmp(exp, o)
            if d:
                acc.violation(f"C12:group_differs:{gk}:{which}_call", case, f"{tag}: group '{g}' {labels}/{gk} ({which} evaluate call) differs from the ungrouped evaluation of the restricted arrays in {d}: grouped tp/fp/fn={o['tp']}/{o['fp']}/{o['fn']} IoU={o['list_IOU']} gdsc={o['global_bin_dsc']}; restricted tp/fp/fn={exp['tp']}/{exp['fp']}/{exp['fn']} IoU={exp['list_IOU']} gdsc={exp['global_bin_dsc']}")
                ok = False
    if len(defn) >= 2 and nontriv:
        acc.nontriv(shape, case["pi"], case["ri"], case["def"], itype)
    acc.outcome(tuple((g, o["tp"], o["fp"], o["fn"]) for g, o in sorted(got.items())))
    if acc.evaluations % 4999 == 1:
        acc.sample({"pred": p0.tolist(), "ref": r0.tolist(), "input_type": itype, "groups": [(names[i], l, k) for i, (l, k) in enumerate(defn)]})
    if ok:
        acc.ok()


SUBSETS = [s for r in (1, 2) for s in itertools.combinations((1, 2, 3), r)]
COLLIDING = [({"Disc": [1, 2], "disc": [3]}, {3}), ({"a": [1], "A": [2], "b": [3]}, {2, 3}), ({7: [3], "7": [1]}, {1})]


def _reject(case, acc):
    from panoptica.utils.label_group import LabelGroup
    from panoptica.utils.segmentation_class import SegmentationClassGroups

    pred, ref = sc.grid(case["pi"], (3,), 3), sc.grid(case["ri"], (3,), 3)
    acc.case("reject", case["pi"], case["ri"])
    present_p = {int(x) for x in np.unique(pred) if x}
    present_r = {int(x) for x in np.unique(ref) if x}
    _colliding(case, acc, pred, ref, present_p | present_r)
    for S in SUBSETS:
        for itype in ("UNMATCHED", "MATCHED", "SEMANTIC"):
            for split in (False, True):
                if split and len(S) < 2:
                    continue
                groups = {"g": LabelGroup(list(S))} if not split else {"g1": LabelGroup([S[0]]), "g2": LabelGroup([S[1]])}
                undefined = (present_p | present_r) - set(S)
                acc.step()
                acc.state("reject", case["pi"], case["ri"], S, itype, split)
                raised = None
                try:
                    ev = make_evaluator(itype, matcher=None if itype == "MATCHED" else MATCHER, backend="default" if itype == "SEMANTIC" else "none", instance_metrics=IM, groups=SegmentationClassGroups(groups))
                    ev.evaluate(pred.copy(), ref.copy(), verbose=False)
                except Exception as e:
                    raised = e
                c2 = {**case, "S": list(S), "itype": itype, "split": split}
                if undefined:
                    where = "prediction" if not (present_r - set(S)) else "reference" if not (present_p - set(S)) else "both"
                    acc.nontriv("reject", case["pi"], case["ri"], S, itype)
                    if raised is None:
                        acc.violation(f"C12:undefined_label_accepted:{where}", c2, f"{itype} groups over {S}: labels {sorted(undefined)} (in the {where}) belong to no group but evaluate() returned a result; pred={pred.tolist()} ref={ref.tolist()}")
                    else:
                        acc.ok()
                else:
                    if raised is not None:
                        acc.violation(f"C12:defined_labels_rejected:{type(raised).__name__}", c2, f"{itype} groups over {S}: all labels are defined but evaluate() raised {raised!r}; pred={pred.tolist()} ref={ref.tolist()}")
                    else:
                        acc.ok()


def _colliding(case, acc, pred, ref, present):
    """group names that become equal after the library's lower-casing: only the last one survives; labels of the overwritten
    groups belong to no group any more and must be rejected"""
    from panoptica.utils.label_group import LabelGroup
    from panoptica.utils.segmentation_class import SegmentationClassGroups

    for gdef, surviving in COLLIDING:
        for itype in ("UNMATCHED", "SEMANTIC"):
            acc.step()
            acc.state("collide", case["pi"], case["ri"], repr(gdef), itype)
            raised = None
            try:
                groups = SegmentationClassGroups({k: LabelGroup(v) for k, v in gdef.items()})
                held = {l for g in groups.keys() for l in groups[g].value_labels}
                ev = make_evaluator(itype, matcher=MATCHER, backend="default" if itype == "SEMANTIC" else "none", instance_metrics=IM, groups=groups)
                ev.evaluate(pred.copy(), ref.copy(), verbose=False)
            except Exception as e:
                raised = e
                held = surviving
            undefined = present - set(held)
            c2 = {**case, "groups": {str(k): v for k, v in gdef.items()}, "itype": itype}
            if undefined and raised is None:
                acc.violation("C12:undefined_label_accepted:overwritten_group", c2, f"{itype} groups {gdef} (names collide after lower-casing, held groups cover {sorted(held)}): labels {sorted(undefined)} belong to no evaluated group but evaluate() returned a result; pred={pred.tolist()} ref={ref.tolist()}")
            elif not undefined and raised is not None:
                acc.violation(f"C12:defined_labels_rejected:{type(raised).__name__}", c2, f"{itype} groups {gdef}: all labels defined but evaluate() raised {raised!r}")
            else:
                acc.ok()


def _neg(case, acc):
    from panoptica.utils.label_group import LabelGroup
    from panoptica.utils.segmentation_class import SegmentationClassGroups

    acc.case("neg", tuple(case["pred"]), tuple(case["ref"]))
    for dt in ("int8", "int64"):
        pred, ref = np.array(case["pred"], dtype=dt), np.array(case["ref"], dtype=dt)
        for gdef in ({"all": [1, 2, 3]}, {"a": [1, 2], "b": [3]}, {"a": [1], "b": [2]}):
            defined = {l for ls in gdef.values() for l in ls}
            undefined = ({int(x) for x in pred if x} | {int(x) for x in ref if x}) - defined
            acc.step()
            acc.state("neg", tuple(case["pred"]), tuple(case["ref"]), dt, repr(gdef))
            raised = None
            try:
                ev = make_evaluator("SEMANTIC", matcher=MATCHER, backend="default", instance_metrics=IM, groups=SegmentationClassGroups({k: LabelGroup(v) for k, v in gdef.items()}))
                ev.evaluate(pred.copy(), ref.copy(), verbose=False)
            except Exception as e:
                raised = e
            c2 = {**case, "dtype": dt, "groups": gdef}
            if undefined:
                acc.nontriv("neg", tuple(case["pred"]), tuple(case["ref"]), dt, repr(gdef))
                if raised is None:
                    acc.violation("C12:undefined_label_accepted:negative" if min(undefined) < 0 else "C12:undefined_label_accepted:semantic", c2, f"SEMANTIC {dt} groups {gdef}: labels {sorted(undefined)} belong to no group but evaluate() returned a result; pred={case['pred']} ref={case['ref']}")
                else:
                    acc.ok()
            elif raised is not None:
                acc.violation(f"C12:defined_labels_rejected:{type(raised).__name__}", c2, f"SEMANTIC {dt} groups {gdef}: all labels defined but evaluate() raised {raised!r}")
            else:
                acc.ok()
