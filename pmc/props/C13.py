"""C13 - global binary metrics depend only on the two foregrounds.

(a) every pair of the stated grids x requested global metric subsets x input type: each global_bin_<m> equals metric m
of the reference model on the binarised arrays, unrequested ones are not computable; (b) every empty-side input x all 625
handler tuples per metric: the value is the handler's EMPTY_PRED / EMPTY_REF / NO_INSTANCES entry; (c) re-partitionings
of the same foregrounds x matchers give identical global values.
"""
from __future__ import annotations

import itertools
import math

import numpy as np

from .. import refmodel as rm
from .. import scopes as sc
from ..lib import ECR_NAMES, ECR_VALUE, make_evaluator, observe, same_value

ID = "C13"
LEVEL = "model_checking"
GM = ("DSC", "IOU", "ASSD", "RVD", "clDSC")
KEY = {"DSC": "global_bin_dsc", "IOU": "global_bin_iou", "ASSD": "global_bin_assd", "RVD": "global_bin_rvd", "clDSC": "global_bin_cldsc"}
RULE = (
    "(a) all pairs of G1(4,2), G2(2,3,1), G2(2,2,2) x 27 refs, G3(2,2,2,1) x 16 refs with the full global metric set (clDice only in 2-D/3-D) x input type; all non-empty subsets of the global "
    "metrics on G1(3,2)^2 (15 subsets) and G2(2,2,1)^2 (31 subsets); (b) 14 inputs with an empty prediction, an empty reference or both (1-D/2-D/3-D) x 625 handler tuples per metric "
    "(metric m gets tuple (i+157*rank(m)) mod 625) x input type; (c) every foreground pair of G2(2,3,1)^2 x partitions {one label, one label per voxel, per-component labels, two-colouring, per-voxel labels 256*k in uint32} x "
    "{threshold matcher, merge matcher, matched input}; (d) six segment layouts of 300 and 70000 voxels (with and without any background voxel) x 1-D/2-D x uint8/16/32 x input type with global Dice, IoU, RVD (+ ASSD at 300). non-trivial = both foregrounds non-empty and different (a, c) / handler distinguishes the three empty scenarios (b); distinct by (arrays, configuration)"
)
ASSUMPTIONS = ["clDice: skimage skeleton trusted; compared only where defined (non-empty skeletons, non-zero sum)", "ASSD to 1e-9, others to 1e-12"]
BUDGET = {"quick": 200, "thorough": 1500}

ASYM = {"std": "NAN", "metrics": {"DSC": ["NAN", "ZERO", "ONE", "INF"], "IOU": ["INF", "ONE", "ZERO", "NAN"], "ASSD": ["ZERO", "INF", "NAN", "ONE"],
                                   "RVD": ["ONE", "NAN", "INF", "ZERO"], "clDSC": ["NONE", "ZERO", "ONE", "NAN"]}}


def tuple_of(t):
    return [ECR_NAMES[(t // 5**j) % 5] for j in range(4)]


def handler_cfg(i):
    return {"std": "NAN", "metrics": {m: tuple_of((i + 157 * r) % 625) for r, m in enumerate(GM)}}


def blocks(tier):
    B = []
    big = [((4,), 2, None), ((2, 3), 1, None), ((2, 2), 2, 27), ((2, 2, 2), 1, 16)]
    if tier == "thorough":
        big = [((4,), 2, None), ((2, 3), 1, None), ((2, 2), 2, None), ((2, 2, 2), 1, 64), ((3, 3), 1, 64), ((5,), 2, 27)]
    for shape, k, nref in big:
        n = sc.grid_count(shape, k)
        nr = n if nref is None else nref
        for lo, hi in sc.ranges(n, max(1, 160 // nr)):
            B.append(("all", shape, k, nref, lo, hi))
    for shape, k in (((3,), 2), ((2, 2), 1)):
        n = sc.grid_count(shape, k)
        for lo, hi in sc.ranges(n, 2):
            B.append(("subsets", shape, k, lo, hi))
    for lo, hi in sc.ranges(625, 25):
        B.append(("empty", lo, hi))
    n = sc.grid_count((2, 3), 1)
    for lo, hi in sc.ranges(n, 2):
        B.append(("part", (2, 3), lo, hi))
    # foregrounds of more voxels than an 8-bit / 16-bit counter holds, with and without background
    from .C09 import BIG_BASES, BIG_SIZES

    for size in BIG_SIZES:
        for b in range(len(BIG_BASES)):
            B.append(("bigvol", size, b))
    return B


def _refs(n, nref):
    from .C01 import ref_indices

    return ref_indices(n, nref)


EMPTY_INPUTS = [
    ("both", [0, 0, 0, 0], [0, 0, 0, 0]), ("pred", [0, 0, 0, 0], [1, 1, 0, 2]), ("ref", [1, 0, 2, 2], [0, 0, 0, 0]), ("pred", [0, 0, 0, 0], [0, 0, 0, 1]), ("ref", [1, 1, 1, 1], [0, 0, 0, 0]),
    ("both", [[0, 0], [0, 0]], [[0, 0], [0, 0]]), ("pred", [[0, 0], [0, 0]], [[1, 0], [0, 2]]), ("ref", [[1, 1], [0, 2]], [[0, 0], [0, 0]]), ("pred", [[0, 0, 0]], [[1, 1, 1]]),
    ("both", [[[0, 0], [0, 0]]], [[[0, 0], [0, 0]]]), ("pred", [[[0, 0], [0, 0]], [[0, 0], [0, 0]]], [[[1, 0], [0, 0]], [[0, 0], [0, 1]]]), ("ref", [[[1, 1], [0, 0]], [[0, 0], [2, 0]]], [[[0, 0], [0, 0]], [[0, 0], [0, 0]]]),
    ("ref", [[[1]]], [[[0]]]), ("pred", [0], [1]),
]


def run_block(block, acc):
    kind = block[0]
    if kind == "all":
        _, shape, k, nref, lo, hi = block
        n = sc.grid_count(shape, k)
        for i in range(lo, hi):
            for j in _refs(n, nref):
                for itype in ("SEMANTIC", "UNMATCHED", "MATCHED"):
                    run_case({"kind": "all", "shape": list(shape), "k": k, "pi": i, "ri": j, "itype": itype}, acc)
    elif kind == "subsets":
        _, shape, k, lo, hi = block
        n = sc.grid_count(shape, k)
        mets = GM if len(shape) >= 2 else GM[:4]
        subs = [list(c) for r in range(1, len(mets) + 1) for c in itertools.combinations(mets, r)]
        for i in range(lo, hi):
            for j in range(n):
                for s in subs:
                    run_case({"kind": "all", "shape": list(shape), "k": k, "pi": i, "ri": j, "itype": "UNMATCHED" if (i + j) % 2 else "MATCHED", "subset": s}, acc)
    elif kind == "bigvol":
        for nd in (1, 2):
            for dt in ("uint8", "uint16", "uint32"):
                for itype in ("UNMATCHED", "MATCHED", "SEMANTIC"):
                    run_case({"kind": "bigvol", "size": block[1], "b": block[2], "nd": nd, "dtype": dt, "itype": itype}, acc)
    elif kind == "empty":
        _, lo, hi = block
        for i in range(lo, hi):
            for e in range(len(EMPTY_INPUTS)):
                for itype in ("SEMANTIC", "UNMATCHED", "MATCHED"):
                    run_case({"kind": "empty", "i": i, "e": e, "itype": itype}, acc)
    else:
        _, shape, lo, hi = block
        n = sc.grid_count(shape, 1)
        for i in range(lo, hi):
            for j in range(n):
                run_case({"kind": "part", "shape": list(shape), "pi": i, "ri": j}, acc)


def expected_global(pred, ref, mets):
    """reference values of the global metrics on the binarised arrays; None = undefined (not judged)"""
    from .C06 import _skel

    X, Y = rm.foreground(ref), rm.foreground(pred)
    out = {}
    for m in mets:
        if not X or not Y:
            out[m] = "EMPTY"
        elif m == "DSC":
            out[m] = rm.f(rm.dice_frac(X, Y))
        elif m == "IOU":
            out[m] = rm.f(rm.iou_frac(X, Y))
        elif m == "RVD":
            out[m] = rm.f(rm.rvd_frac(X, Y))
        elif m == "ASSD":
            out[m] = rm.assd(X, Y)
        elif m == "clDSC":
            sX, sY = _skel(ref != 0), _skel(pred != 0)
            if not sX or not sY:
                out[m] = None
                continue
            tp_, ts_ = len(Y & sX) / len(sX), len(X & sY) / len(sY)
            out[m] = None if tp_ + ts_ == 0 else 2 * tp_ * ts_ / (tp_ + ts_)
    return out


def _evaluate(acc, case, tag, itype, pred, ref, mets, handler, matcher="thr"):
    acc.step()
    m = None if itype == "MATCHED" else (["thr", "IOU", 0.5, False] if matcher == "thr" else ["merge", "IOU", 0.5])
    try:
        ev = make_evaluator(itype, matcher=m, backend="default" if itype == "SEMANTIC" else "none", global_metrics=tuple(mets), handler=handler,
                            instance_metrics=("DSC", "IOU"))
        res = ev.evaluate(pred.copy(), ref.copy(), verbose=False)["ungrouped"][0]
        return observe(res, metrics=("DSC", "IOU"))
    except Exception as e:
        acc.violation(f"C13:raised:{type(e).__name__}", case, f"{tag}: evaluate raised {e!r}")
        return None


def judge_values(acc, case, tag, obs, exp, mets, sig="C13"):
    ok = True
    for m in GM:
        v = obs[KEY[m]]
        if m not in mets:
            if not (isinstance(v, tuple) and v[0] == "ERR"):
                acc.violation(f"{sig}:unrequested_reported", case, f"{tag}: global metric {m} was not requested but {KEY[m]}={v!r}")
                ok = False
            continue
        e = exp[m]
        if e is None or e == "EMPTY":
            continue
        tol = dict(rel=1e-9, abs_=1e-12) if m in ("ASSD", "clDSC") else dict(rel=1e-12, abs_=1e-15)
        if isinstance(v, tuple) or not same_value(v, e, **tol):
            acc.violation(f"{sig}:value:{m}", case, f"{tag}: {KEY[m]}={v!r} but {m} of the binarised arrays is {e!r}")
            ok = False
    return ok


def run_case(case, acc):
    kind = case["kind"]
    if kind == "all":
        shape = tuple(case["shape"])
        pred, ref = sc.grid(case["pi"], shape, case["k"]), sc.grid(case["ri"], shape, case["k"])
        itype = case["itype"]
        mets = case.get("subset") or (list(GM) if len(shape) >= 2 else list(GM[:4]))
        acc.case("all", shape, case["k"], case["pi"], case["ri"], itype, tuple(mets))
        tag = f"{itype} globals={mets} pred={pred.tolist()} ref={ref.tolist()}"
        obs = _evaluate(acc, case, tag, itype, pred, ref, mets, ASYM)
        if obs is None:
            return
        acc.state(shape, case["pi"], case["ri"], itype, tuple(mets))
        exp = expected_global(pred, ref, mets)
        if np.any(pred) and np.any(ref) and not np.array_equal(pred != 0, ref != 0):
            acc.nontriv(shape, case["k"], case["pi"], case["ri"])
        if acc.evaluations % 4001 == 1:
            acc.sample({"pred": pred.tolist(), "ref": ref.tolist(), "input_type": itype, "global_metrics": mets, "expected": {k: (v if v != "EMPTY" else "handler") for k, v in exp.items()}})
        ok = judge_values(acc, case, tag, obs, exp, mets)
        ok = _judge_empty(acc, case, tag, obs, pred, ref, mets, ASYM) and ok
        acc.outcome(tuple(repr(obs[KEY[m]]) for m in GM))
        if ok:
            acc.ok()
    elif kind == "bigvol":
        from .C09 import BIG_BASES, _segs_array

        name, ps, rs = BIG_BASES[case["b"]]
        pred = _segs_array(ps, case["size"], case["nd"]).astype(case["dtype"])
        ref = _segs_array(rs, case["size"], case["nd"]).astype(case["dtype"])
        itype = case["itype"]
        mets = ["DSC", "IOU", "RVD"] + (["ASSD"] if case["size"] <= 300 else [])
        acc.case("bigvol", case["size"], case["b"], case["nd"], case["dtype"], itype)
        tag = f"{itype} globals={mets} {name}: {case['size']} voxels, {case['nd']}-D, dtype {case['dtype']}"
        obs = _evaluate(acc, case, tag, itype, pred, ref, mets, ASYM)
        if obs is None:
            return
        acc.state("bigvol", case["size"], case["b"], case["nd"], case["dtype"], itype)
        acc.nontriv("bigvol", case["size"], case["b"], case["nd"], case["dtype"], itype)
        exp = expected_global(pred, ref, mets)
        acc.outcome(tuple(repr(obs[KEY[m]]) for m in GM))
        if judge_values(acc, case, tag, obs, exp, mets):
            acc.ok()
    elif kind == "empty":
        which, p, r = EMPTY_INPUTS[case["e"]]
        pred, ref = np.array(p, dtype=np.uint8), np.array(r, dtype=np.uint8)
        itype = case["itype"]
        mets = list(GM) if pred.ndim >= 2 else list(GM[:4])
        hc = handler_cfg(case["i"])
        acc.case("empty", case["i"], case["e"], itype)
        tag = f"handler#{case['i']} {itype} empty={which} pred={pred.tolist()} ref={ref.tolist()}"
        obs = _evaluate(acc, case, tag, itype, pred, ref, mets, hc)
        if obs is None:
            return
        acc.state("empty", case["i"], case["e"], itype)
        if any(len({hc["metrics"][m][0], hc["metrics"][m][1], hc["metrics"][m][2]}) == 3 for m in mets):
            acc.nontriv("empty", case["i"], case["e"], itype)
        acc.outcome(tuple(repr(obs[KEY[m]]) for m in GM))
        if acc.evaluations % 5003 == 1:
            acc.sample({"handler": hc, "pred": pred.tolist(), "ref": ref.tolist(), "input_type": itype})
        if _judge_empty(acc, case, tag, obs, pred, ref, mets, hc):
            acc.ok()
    else:
        _part_case(case, acc)


def _judge_empty(acc, case, tag, obs, pred, ref, mets, hc):
    pe, re_ = not np.any(pred), not np.any(ref)
    if not (pe or re_):
        return True
    scen, idx = ("NO_INSTANCES", 0) if pe and re_ else ("EMPTY_PRED", 1) if pe else ("EMPTY_REF", 2)
    ok = True
    for m in mets:
        exp = ECR_VALUE[hc["metrics"][m][idx]]
        v = obs[KEY[m]]
        if isinstance(v, tuple) or not same_value(v, exp, exact=True):
            names = ["NO_INSTANCES", "EMPTY_PRED", "EMPTY_REF", "NORMAL"]
            others = [names[k] for k in range(4) if not isinstance(v, tuple) and same_value(ECR_VALUE[hc["metrics"][m][k]], v, exact=True)]
            acc.violation(f"C13:empty:{scen}", case, f"{tag}: {KEY[m]}={v!r} but the handler assigns {exp!r} to {scen} for {m} (value matches {others})")
            ok = False
    return ok


def _partitions(fg):
    """label maps with the same foreground: one label, one label per voxel, per face-component, two-colouring by parity"""
    outs = []
    one = (fg != 0).astype(np.uint8)
    outs.append(("one", one))
    pv = np.zeros_like(one)
    idx = np.flatnonzero(one.ravel())
    pv.ravel()[idx] = np.arange(1, len(idx) + 1, dtype=np.uint8)
    outs.append(("per_voxel", pv))
    comp = np.zeros_like(one)
    for c, S in enumerate(rm.components(rm.foreground(one), one.ndim, False), start=1):
        for x in S:
            comp[x] = c
    outs.append(("components", comp))
    par = one.copy()
    for x in zip(*np.nonzero(one)):
        par[x] = 1 + (sum(x) % 2)
    outs.append(("parity", par))
    # the same per-voxel partition with label values that are multiples of 256 (they vanish in a narrower dtype)
    outs.append(("per_voxel_x256", pv.astype(np.uint32) * 256))
    return outs


def _part_case(case, acc):
    shape = tuple(case["shape"])
    fp_, fr_ = sc.grid(case["pi"], shape, 1), sc.grid(case["ri"], shape, 1)
    acc.case("part", shape, case["pi"], case["ri"])
    if not np.any(fp_) or not np.any(fr_):
        return
    mets = list(GM)
    exp = expected_global(fp_, fr_, mets)
    if not np.array_equal(fp_, fr_):
        acc.nontriv("part", shape, case["pi"], case["ri"])
    seen = {}
    ok = True
    variants = [case["variant"]] if "variant" in case else None
    for (pn, P), (rn, R) in itertools.product(_partitions(fp_), _partitions(fr_)):
        if P.dtype != R.dtype:
            P, R = P.astype(np.uint32), R.astype(np.uint32)
        for itype, matcher in (("UNMATCHED", "thr"), ("UNMATCHED", "merge"), ("MATCHED", None)):
            v = [pn, rn, itype, matcher]
            if variants and v not in variants:
                continue
            tag = f"partition pred={pn} ref={rn} {itype}/{matcher} foregrounds pred={fp_.tolist()} ref={fr_.tolist()}"
            obs = _evaluate(acc, {**case, "variant": v}, tag, itype, P, R, mets, ASYM, matcher or "thr")
            if obs is None:
                ok = False
                continue
            acc.state("part", shape, case["pi"], case["ri"], pn, rn, itype, matcher)
            ok = judge_values(acc, {**case, "variant": v}, tag, obs, exp, mets, sig="C13:partition") and ok
            acc.outcome(tuple(repr(obs[KEY[m]]) for m in GM))
    if ok:
        acc.ok()
