"""C14 - the merge matcher only merges when it improves the match.

All overlap structures of the stated contingency-table scopes (IoU, Dice) and all fragmentations of fixed
references on small grids (ASSD, geometry) go through the real MaximizeMergeMatching.match_instances under every
threshold class. The result is judged by a validity checker that reconstructs the merge order from the
best-first rule (members of a group join in order of their individual score; tied members: any order).
"""
from __future__ import annotations

import itertools

import numpy as np

from .. import refmodel as rm
from .. import scopes as sc
from ..lib import UnmatchedInstancePair, make_matcher
from .C03 import read_assignment, thresholds_for

ID = "C14"
LEVEL = "model_checking"
RULE = (
    "all contingency tables CT(3,1,2), CT(2,2,2), CT(4,1,1) (thorough: CT(3,2,2), CT(4,2,1)) x {IoU,Dice}; all predictions of G1(6,3) x 10 fixed references and "
    "G2(2,3,3) x 8 fixed references (thorough: G1(7,3) x 12) x ASSD; x every threshold class; histories: every 4th (thorough: every 2nd) prediction of G1(6,3) / G2(2,3,3) x 1 (thorough: 2) partner reference per reference x each of {IoU,Dice,ASSD} x threshold classes: one matcher object matches sample A, sample B of the same shape, sample A again. non-trivial = some reference overlaps >= 2 predictions; "
    "distinct by overlap structure / array pair"
)
ASSUMPTIONS = [
    "merge order reconstructed from the documented best-first rule; when members tie in individual score any order that validates is accepted",
    "ASSD comparisons use 1e-9 relative tolerance (a strict improvement smaller than that is not demanded)",
]
BUDGET = {"quick": 320, "thorough": 2400}

REFS_1D6 = [[1, 1, 1, 1, 1, 1], [0, 1, 1, 1, 1, 0], [1, 1, 1, 0, 0, 0], [1, 1, 1, 2, 2, 2], [1, 1, 0, 2, 2, 0], [0, 1, 1, 1, 2, 2],
            [1, 1, 1, 1, 2, 2], [1, 0, 1, 1, 0, 2], [2, 2, 0, 0, 1, 1], [1, 1, 1, 1, 0, 0]]
REFS_1D7 = [r + [0] for r in REFS_1D6] + [[1, 1, 1, 1, 1, 1, 1], [1, 1, 1, 2, 2, 2, 2]]
REFS_2x3 = [[[1, 1, 1], [1, 1, 1]], [[1, 1, 0], [1, 1, 0]], [[1, 1, 2], [1, 1, 2]], [[1, 1, 1], [2, 2, 2]], [[1, 0, 2], [1, 0, 2]],
            [[1, 1, 1], [0, 0, 0]], [[1, 1, 2], [1, 2, 2]], [[0, 1, 1], [1, 1, 0]]]


def blocks(tier):
    B = []
    cts = [(3, 1, 2), (2, 2, 2), (4, 1, 1)] if tier == "quick" else [(3, 1, 2), (2, 2, 2), (4, 1, 1), (3, 2, 2), (4, 2, 1)]
    for P, R, c in cts:
        n = sc.ct_count(P, R, c)
        for lo, hi in sc.ranges(n, 200):
            B.append(("ct", P, R, c, lo, hi))
    geo = [("1d6", (6,), 3), ("2x3", (2, 3), 3)] if tier == "quick" else [("1d6", (6,), 3), ("2x3", (2, 3), 3), ("1d7", (7,), 3)]
    for name, shape, k in geo:
        n = sc.grid_count(shape, k)
        for lo, hi in sc.ranges(n, 32):
            B.append(("geo", name, shape, k, lo, hi))
    # histories: one matcher object is used on a sequence of samples of the same shape (as Panoptica_Evaluator does)
    for name, shape, k in geo[:2]:
        n = sc.grid_count(shape, k)
        step = 4 if tier == "quick" else 2
        for lo, hi in sc.ranges(n // step, 12):
            B.append(("reuse", name, shape, k, step, lo, hi))
    return B


def _refs(name):
    return {"1d6": REFS_1D6, "1d7": REFS_1D7, "2x3": REFS_2x3}[name]


def run_block(block, acc):
    if block[0] == "reuse":
        _, name, shape, k, step, lo, hi = block
        nr = len(_refs(name))
        for q in range(lo, hi):
            for a in range(nr):
                for b in ((a + 1) % nr, (a + 3) % nr)[: 1 if step > 2 else 2]:
                    for metric in ("IOU", "DSC", "ASSD"):
                        run_case({"kind": "reuse", "refs": name, "shape": list(shape), "k": k, "pi": q * step + (1 if step > 1 else 0), "ra": a, "rb": b, "metric": metric}, acc)
        return
    if block[0] == "ct":
        _, P, R, c, lo, hi = block
        for i in range(lo, hi):
            for metric in ("IOU", "DSC"):
                run_case({"kind": "ct", "P": P, "R": R, "c": c, "i": i, "metric": metric}, acc)
    else:
        _, name, shape, k, lo, hi = block
        for i in range(lo, hi):
            for j in range(len(_refs(name))):
                run_case({"kind": "geo", "refs": name, "shape": list(shape), "k": k, "pi": i, "rj": j, "metric": "ASSD"}, acc)


def arrays_of(case):
    if case["kind"] == "ct":
        return sc.ct_arrays(sc.ct_table(case["i"], case["P"], case["R"], case["c"]))
    if case["kind"] == "geo":
        return sc.grid(case["pi"], tuple(case["shape"]), case["k"]), np.array(_refs(case["refs"])[case["rj"]], dtype=np.uint8)
    return sc.arr_from_case(case["pred"]), sc.arr_from_case(case["ref"])


def strictly_better(metric, a, b):
    if rm.close(a, b):
        return False
    return a < b if rm.DECREASING[metric] else a > b


def better_eq(metric, a, b):
    return rm.close(a, b) or (a < b if rm.DECREASING[metric] else a > b)


def judge_merge(acc, case, tag, rp, plabs, rlabs, asg, metric, thr, sigp="C14"):
    pidx = {l: i for i, l in enumerate(plabs)}
    ridx = {l: i for i, l in enumerate(rlabs)}
    groups: dict = {}
    for p, r in asg.items():
        if r is not None:
            groups.setdefault(ridx[r], []).append(pidx[p])
    cset = set(rp.cands)
    ok = True
    assigned = {pidx[p] for p, r in asg.items() if r is not None}
    for r, members in groups.items():
        for p in members:
            if (p, r) not in cset:
                acc.violation(f"{sigp}:assigned_without_overlap", case, f"{tag}: prediction {plabs[p]} merged into reference {rlabs[r]} without sharing a voxel")
                ok = False
        members = [p for p in members if (p, r) in cset]
        if not members:
            continue
        ind = {p: rp.score(metric, p, r) for p in members}
        # some single member must meet the threshold on its own
        if not any(rm.beats(metric, s, thr) or rm.close(s, thr) for s in ind.values()):
            acc.violation(f"{sigp}:matched_without_single_candidate", case, f"{tag}: reference {rlabs[r]} matched to {[plabs[p] for p in members]} but no single member meets the threshold (scores {ind})")
            ok = False
            continue
        final = rp.score_sets(metric, members, r)
        if not (rm.beats(metric, final, thr) or rm.close(final, thr)):
            acc.violation(f"{sigp}:final_below_threshold", case, f"{tag}: reference {rlabs[r]} final {metric}={final} does not meet the threshold")
            ok = False
        # final at least as good as each member alone and as each unassigned overlapping prediction
        rivals = dict(ind)
        for p, rr in rp.cands:
            if rr == r and p not in assigned:
                rivals[p] = rp.score(metric, p, r)
        worst = [p for p, s in rivals.items() if not better_eq(metric, final, s)]
        if worst:
            acc.violation(f"{sigp}:final_worse_than_single", case, f"{tag}: reference {rlabs[r]} final {metric}={final} is worse than single candidates { {plabs[p]: rivals[p] for p in worst} }")
            ok = False
        # merge order: best individual first; every later member must strictly improve the group score
        if len(members) > 1:
            order = sorted(members, key=lambda p: ind[p], reverse=not rm.DECREASING[metric])
            tiegroups = []
            for p in order:
                if tiegroups and rm.close(ind[tiegroups[-1][0]], ind[p]):
                    tiegroups[-1].append(p)
                else:
                    tiegroups.append([p])
            valid = False
            nperm = 0
            for combo in itertools.product(*[itertools.permutations(g) for g in tiegroups]):
                seq = [p for g in combo for p in g]
                nperm += 1
                if not (rm.beats(metric, ind[seq[0]], thr) or rm.close(ind[seq[0]], thr)):
                    continue
                cur = ind[seq[0]]
                good = True
                for i in range(1, len(seq)):
                    new = rp.score_sets(metric, seq[: i + 1], r)
                    if not strictly_better(metric, new, cur):
                        good = False
                        break
                    cur = new
                if good:
                    valid = True
                    break
                if nperm > 200:
                    break
            if not valid:
                acc.violation(f"{sigp}:merge_without_improvement:{metric}", case, f"{tag}: reference {rlabs[r]} group {[plabs[p] for p in members]} cannot be built by strictly improving merges (individual scores {ind}, final {final})")
                ok = False
    return ok, groups


def _reuse_case(case, acc):
    """the same matcher object matches sample A, sample B (same shape, same labels, different geometry), sample A again; every
    result must pass the checker for its own sample"""
    shape, k, metric = tuple(case["shape"]), case["k"], case["metric"]
    n = sc.grid_count(shape, k)
    acc.case("reuse", case["refs"], case["pi"], case["ra"], case["rb"], metric)
    samples = []
    for pi, rj in ((case["pi"], case["ra"]), ((case["pi"] * 7 + 3) % n, case["rb"])):
        pred, ref = sc.grid(pi, shape, k), np.array(_refs(case["refs"])[rj], dtype=np.uint8)
        pv, rv = rm.voxsets(pred), rm.voxsets(ref)
        if not pv or not rv:
            continue
        plabs, rlabs = sorted(pv), sorted(rv)
        samples.append(dict(pred=pred, ref=ref, plabs=plabs, rlabs=rlabs, rp=rm.RefPair([pv[l] for l in plabs], [rv[l] for l in rlabs])))
    if len(samples) < 2:
        acc.count("skipped_empty_side")
        return
    keeps = [thresholds_for(S["rp"], metric, None, shape=S["pred"].shape) for S in samples]
    thrs = []
    for t in sorted(set(keeps[0]) | set(keeps[1])):
        okt = True
        for S, keep in zip(samples, keeps):
            if t not in keep and any(rm.close(t, S["rp"].score(metric, p, r)) for p, r in S["rp"].cands):
                okt = False
        if okt:
            thrs.append(t)
    acc.nontriv("reuse", case["refs"], case["pi"], case["ra"], case["rb"], metric)
    for thr in thrs:
        try:
            M = make_matcher(["merge", metric, thr])
        except Exception as e:
            acc.violation(f"C14:reuse:raised:{type(e).__name__}", {**case, "thr": thr}, f"matcher construction raised {e!r}")
            continue
        for use, S in enumerate((samples[0], samples[1], samples[0])):
            c2 = {**case, "thr": thr, "use": use}
            tag = f"merge {metric} thr={thr}, use {use} of one matcher object (pred={S['pred'].tolist()}, ref={S['ref'].tolist()})"
            acc.step()
            try:
                out = M.match_instances(UnmatchedInstancePair(S["pred"].copy(), S["ref"].copy()))
            except Exception as e:
                acc.violation(f"C14:reuse:raised:{type(e).__name__}", c2, f"{tag}: match_instances raised {e!r}")
                continue
            acc.state("reuse", out.prediction_arr, out.reference_arr, metric, thr)
            asg, split = read_assignment(S["pred"], S["ref"], out.prediction_arr, set(S["rlabs"]))
            if split:
                acc.violation("C14:reuse:prediction_split", c2, f"{tag}: predictions {split} carry more than one label after matching")
                continue
            ok, groups = judge_merge(acc, c2, tag, S["rp"], S["plabs"], S["rlabs"], asg, metric, thr, sigp="C14:reuse")
            acc.outcome(sorted((r, tuple(sorted(m))) for r, m in groups.items()))
            if ok:
                acc.ok()


def run_case(case, acc):
    if case["kind"] == "reuse":
        return _reuse_case(case, acc)
    pred, ref = arrays_of(case)
    metric = case["metric"]
    acc.case(case["kind"], case.get("P"), case.get("R"), case.get("c"), case.get("i"), case.get("refs"), case.get("pi"), case.get("rj"), metric)
    pv, rv = rm.voxsets(pred), rm.voxsets(ref)
    if not pv or not rv:
        acc.count("skipped_empty_side")
        return
    plabs, rlabs = sorted(pv), sorted(rv)
    rp = rm.RefPair([pv[l] for l in plabs], [rv[l] for l in rlabs])
    thrs = [case["thr"]] if "thr" in case else thresholds_for(rp, metric, acc, shape=pred.shape)
    from collections import Counter

    cr = Counter(r for p, r in rp.cands)
    if any(v > 1 for v in cr.values()):
        acc.nontriv(case["kind"], pred.tobytes(), ref.tobytes(), pred.shape)
    if acc.evaluations % 1499 == 1:
        acc.sample({"pred": pred.tolist(), "ref": ref.tolist(), "metric": metric, "thresholds": thrs})
    for thr in thrs:
        c2 = {**case, "thr": thr}
        tag = f"merge {metric} thr={thr}"
        acc.step()
        try:
            out = make_matcher(["merge", metric, thr]).match_instances(UnmatchedInstancePair(pred.copy(), ref.copy()))
        except Exception as e:
            acc.violation(f"C14:raised:{type(e).__name__}", c2, f"{tag}: match_instances raised {e!r}")
            continue
        acc.state("matched", out.prediction_arr, out.reference_arr)
        asg, split = read_assignment(pred, ref, out.prediction_arr, set(rlabs))
        if split:
            acc.violation("C14:prediction_split", c2, f"{tag}: predictions {split} carry more than one label after matching")
            continue
        ok, groups = judge_merge(acc, c2, tag, rp, plabs, rlabs, asg, metric, thr)
        acc.outcome(sorted((r, tuple(sorted(m))) for r, m in groups.items()))
        if any(len(m) > 1 for m in groups.values()):
            acc.count("executions_with_accepted_merge")
        if ok:
            acc.ok()
