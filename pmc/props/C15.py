"""C15 - evaluation is pure: no input mutation, no history / option / worker dependence.

(i) explicit-state search over operation histories: ALL histories up to depth 3 (thorough 4) over an alphabet of
constructor / evaluate / key-reading / saving / aggregator operations on shared evaluators; every history runs in a freshly
forked process image (so the initial state is really pristine), every operation is judged against a baseline computed in
another fresh process. (ii) the full per-call x constructor option product. (iii) worker independence: every task execution
order of the permuting pool, and the real multiprocessing pool on a sub-scope.
"""
from __future__ import annotations

import itertools
import os
import pickle

import numpy as np

from .. import agg, scopes as sc, seams, vfs
from ..lib import ITYPE, Metric, make_handler, make_matcher, observe, same_value

ID = "C15"
LEVEL = "model_checking"
RULE = (
    "(i) alphabet per evaluator configuration c (quick: c1 = UNMATCHED + default metric lists, c2 = UNMATCHED + explicit lists, groups, decision, asymmetric handler; thorough: + c0 = all defaults (MATCHED), c3 = SEMANTIC): "
    "newE(c), evaluate(x0|x1|x2) (always the same two array objects per history, overwritten in place with the input), evaluate(x0, save_group_times=True), evaluate(x0, result_all=False, log_times=True, verbose=True), read resulting_metric_keys, save_to_config, new aggregator(log_times F|T), aggregator.evaluate; "
    "+ new default EdgeCaseHandler, direct panoptic_evaluate with defaults, construction (+ attempted use) of two evaluators with unusual argument combinations (decision metric outside the default metric list; RVD decision at 0 with all flags; default instance metrics with other global metrics); ALL histories of length <= 3 (thorough <= 4 on the quick alphabet), each in a pristine forked process; "
    "semantic histories: ALL histories of length <= 4 (thorough 5) over {new evaluator, new evaluator sharing the approximator object, evaluate 1-D / 2-D / 3-D input with diagonal contacts on either evaluator}; merge-matcher histories: ALL histories of length <= 4 (thorough 5) over {new evaluator with a MaximizeMergeMatching, new evaluator sharing that matcher object, evaluate y0 (merge accepted) / y1 (merge to be rejected) / y2 (other accepted merge) on either evaluator}; "
    "(ii) result_all{T,F} x save_group_times{None,T,F} x log_times{None,T,F} x verbose{None,T,F} x constructor flags 2^3 x 3 inputs x 2 configurations; "
    "(iii) 1 .. 2*cpu_count+7 identical well separated instances x input type (tp must equal the instance count however the work is split); all pairs of G1(4,2) with >= 2 tasks: serial vs every task execution order of each pool call; 64 (thorough 512) inputs with the real multiprocessing.Pool. "
    "non-trivial = histories in which an evaluator is used after another object was constructed or used; distinct by history / option tuple / input"
)
ASSUMPTIONS = [
    "a forked child of the (never used) worker image is a pristine process state",
    "computation_time and printed output are not metrics and are ignored",
    "the baseline is what a fresh evaluator in a fresh process reports for the same input and configuration",
    "module-level / default-argument containers that change through use are counted in the evidence but are not violations by themselves (a cache that changes no result is allowed)",
]
BUDGET = {"quick": 300, "thorough": 4200}

X = [
    (np.array([[1, 1, 0, 0, 0], [0, 0, 2, 2, 2], [3, 0, 0, 0, 0]], dtype=np.uint8), np.array([[1, 1, 1, 0, 0], [0, 0, 2, 2, 0], [0, 0, 0, 3, 3]], dtype=np.uint8)),
    (np.zeros((3, 5), dtype=np.uint8), np.array([[1, 1, 1, 0, 0], [0, 0, 2, 2, 0], [0, 0, 0, 0, 0]], dtype=np.uint8)),
    # no background voxel at all, and only labels of c2's merge group {2, 3}
    (np.array([[2, 2, 3, 3, 3], [2, 2, 2, 3, 3], [2, 3, 3, 3, 3]], dtype=np.uint8), np.array([[2, 2, 2, 3, 3], [2, 2, 3, 3, 3], [3, 3, 3, 3, 3]], dtype=np.uint8)),
]
ASYM = {"std": "ZERO", "metrics": {"DSC": ["NAN", "ZERO", "ONE", "INF"], "IOU": ["INF", "ONE", "ZERO", "NAN"], "ASSD": ["ZERO", "INF", "NAN", "ONE"], "RVD": ["ONE", "NAN", "INF", "ZERO"], "clDSC": ["NONE", "ZERO", "ONE", "NAN"]}}


def new_evaluator(c, flags=None):
    from panoptica import ConnectedComponentsInstanceApproximator, Panoptica_Evaluator
    from panoptica.instance_matcher import NaiveThresholdMatching
    from panoptica.utils.label_group import LabelGroup, LabelMergeGroup
    from panoptica.utils.segmentation_class import SegmentationClassGroups

    kw = {}
    if flags is not None:
        kw = dict(save_group_times=flags[0], log_times=flags[1], verbose=flags[2])
    if c == 0:
        return Panoptica_Evaluator(**kw)
    if c == 1:
        return Panoptica_Evaluator(expected_input=ITYPE["UNMATCHED"], instance_matcher=NaiveThresholdMatching(), **kw)
    if c == 2:
        return Panoptica_Evaluator(expected_input=ITYPE["UNMATCHED"], instance_matcher=make_matcher(["thr", "IOU", 0.5, False]), instance_metrics=[Metric.DSC, Metric.IOU], global_metrics=[Metric.DSC, Metric.IOU],
                                   decision_metric=Metric.IOU, decision_threshold=0.5, edge_case_handler=make_handler(ASYM),
                                   segmentation_class_groups=SegmentationClassGroups({"one": LabelGroup([1]), "rest": LabelMergeGroup([2, 3])}), **kw)
    if c == 3:
        return Panoptica_Evaluator(expected_input=ITYPE["SEMANTIC"], instance_approximator=ConnectedComponentsInstanceApproximator(), instance_matcher=NaiveThresholdMatching(), **kw)
    raise ValueError(c)


OPTSETS = {"default": {}, "sgt": {"save_group_times": True}, "quiet": {"result_all": False, "log_times": True, "verbose": True}}


def alphabet(configs):
    ops = []
    for c in configs:
        ops += [("newE", c), ("eval", c, 0, "default"), ("eval", c, 1, "default"), ("eval", c, 2, "default"), ("eval", c, 0, "sgt"), ("eval", c, 0, "quiet"),
                ("keys", c), ("save", c), ("newA", c, False), ("newA", c, True), ("aeval", c, 0)]
    ops += [("newH",), ("direct",), ("newOdd", 0), ("newOdd", 1), ("newOdd", 2)]
    return ops


def new_odd(k):
    """legal constructor calls with unusual argument combinations (they may fail later at evaluate(); constructing them must not
    change anybody else)"""
    from panoptica import Panoptica_Evaluator
    from panoptica.instance_matcher import NaiveThresholdMatching

    if k == 0:  # decision metric that is not among the (default) instance metrics
        return Panoptica_Evaluator(expected_input=ITYPE["UNMATCHED"], instance_matcher=NaiveThresholdMatching(), decision_metric=Metric.clDSC, decision_threshold=0.5)
    if k == 2:  # like c1 (default instance metrics) but with other global metrics: anything cached per metric selection must keep them apart
        return Panoptica_Evaluator(expected_input=ITYPE["UNMATCHED"], instance_matcher=NaiveThresholdMatching(), global_metrics=[Metric.DSC, Metric.IOU, Metric.RVD])
    # global metric list given as the default of another call + log flags
    return Panoptica_Evaluator(expected_input=ITYPE["MATCHED"], decision_metric=Metric.RVD, decision_threshold=0.0, save_group_times=True, log_times=True, verbose=True)


def obs_of(out):
    return {g: observe(v[0]) for g, v in out.items()}


def same_results(a, b):
    """exact equality of two {group: observation} dicts (nan == nan)"""
    if sorted(a) != sorted(b):
        return ["groups"]
    d = []
    for g in a:
        for k, x in a[g].items():
            y = b[g].get(k)
            if isinstance(x, list) and isinstance(y, list):
                if len(x) != len(y) or any(not same_value(p, q, exact=True) for p, q in zip(x, y)):
                    d.append(f"{g}.{k}")
            elif not same_value(x, y, exact=True):
                d.append(f"{g}.{k}")
    return d


def mutable_state():
    """snapshot of every mutable default argument and module-level container in panoptica.*"""
    import sys
    import types

    snap = {}
    for name, mod in sorted(sys.modules.items()):
        if not name.startswith("panoptica") or mod is None:
            continue
        for attr, val in sorted(vars(mod).items()):
            if isinstance(val, (list, dict, set)) and not attr.startswith("__"):
                snap[f"{name}.{attr}"] = _r(val)
            fns = []
            if isinstance(val, types.FunctionType) and val.__module__ == name:
                fns.append((attr, val))
            elif isinstance(val, type) and val.__module__ == name:
                for a2, v2 in vars(val).items():
                    f = v2.__func__ if isinstance(v2, (classmethod, staticmethod)) else v2
                    if isinstance(f, types.FunctionType):
                        fns.append((f"{attr}.{a2}", f))
            for fname, f in fns:
                for i, dflt in enumerate(f.__defaults__ or ()):
                    if isinstance(dflt, (list, dict, set)):
                        snap[f"{name}.{fname}.__defaults__[{i}]"] = _r(dflt)
                for k, dflt in (f.__kwdefaults__ or {}).items():
                    if isinstance(dflt, (list, dict, set)):
                        snap[f"{name}.{fname}.__kwdefaults__[{k}]"] = _r(dflt)
    return snap


def _r(v):
    try:
        if isinstance(v, dict):
            return repr(sorted((repr(k), repr(x)) for k, x in v.items()))
        if isinstance(v, set):
            return repr(sorted(repr(x) for x in v))
        return repr(v)
    except Exception:
        return "<unrepr>"


# ------------------------------------------------------------------------------------------------ child processes
def in_child(fn, *args):
    """run fn(*args) in a forked child of the current (pristine) process image; returns its pickled result"""
    r, w = os.pipe()
    pid = os.fork()
    if pid == 0:
        code = 0
        try:
            os.close(r)
            import multiprocessing

            multiprocessing.current_process()._config["daemon"] = False
            try:
                res = ("OK", fn(*args))
            except BaseException as e:  # noqa: BLE001
                import traceback

                res = ("ERR", repr(e) + "\n" + traceback.format_exc()[-1500:])
            with os.fdopen(w, "wb") as f:
                pickle.dump(res, f)
        finally:
            os._exit(code)
    os.close(w)
    with os.fdopen(r, "rb") as f:
        data = f.read()
    os.waitpid(pid, 0)
    st, res = pickle.loads(data)
    if st == "ERR":
        raise RuntimeError("child failed: " + res)
    return res


def _baseline_child(configs):
    """fresh process: per configuration keys, yaml, results per input, aggregator header/rows"""
    from panoptica import Panoptica_Aggregator

    out = {"mutable": mutable_state()}
    for c in configs:
        b = {}
        ev = new_evaluator(c)
        b["res"] = {}
        for x in range(len(X)):
            try:
                b["res"][x] = ("OK", obs_of(new_evaluator(c).evaluate(X[x][0].copy(), X[x][1].copy(), verbose=False)))
            except Exception as e:
                b["res"][x] = ("EXC", type(e).__name__)
        b["keys"] = list(new_evaluator(c).resulting_metric_keys)
        vfs.reset(dirs=["/vfs/c", "/vfs/d"])
        new_evaluator(c).save_to_config("/vfs/c/e.yaml")
        b["yaml"] = vfs.fs.files["/vfs/c/e.yaml"]
        for lt in (False, True):
            vfs.reset(dirs=["/vfs/d"])
            e2 = new_evaluator(c)
            A = Panoptica_Aggregator(e2, "/vfs/d/out.tsv", log_times=lt)
            A.evaluate(X[0][0].copy(), X[0][1].copy(), "subj")
            rows = agg.parse_tsv(vfs.fs.files["/vfs/d/out.tsv"])
            b[("agg", lt)] = (rows[0], rows[1])
        out[c] = b
    return out


_BASE: dict = {}


def baseline(configs):
    key = tuple(configs)
    if key not in _BASE:
        _BASE[key] = in_child(_baseline_child, list(configs))
    return _BASE[key]


def _history_child(hist, base):
    """run one history; returns list of (signature, message) violations and a small trace"""
    from panoptica import Panoptica_Aggregator
    from panoptica.panoptica_evaluator import panoptic_evaluate
    from panoptica.utils.edge_case_handling import EdgeCaseHandler
    from panoptica.utils.processing_pair import MatchedInstancePair

    viol = []
    evs = {}
    aggs = {}
    vfs.reset(dirs=["/vfs/c", "/vfs/d"])
    nA = 0
    trace = []
    bufs = (np.zeros_like(X[0][0]), np.zeros_like(X[0][1]))

    def ev(c):
        if c not in evs:
            evs[c] = new_evaluator(c)
        return evs[c]

    for i, op in enumerate(hist):
        where = f"after {list(hist[:i])} the operation {op}"
        try:
            if op[0] == "newE":
                evs[op[1]] = new_evaluator(op[1])
            elif op[0] == "eval":
                _, c, x, optn = op
                if optn == "default":
                    # the caller's two array objects are the same for every default-option call of the history; their
                    # contents are overwritten in place (anything keyed by array identity would go stale)
                    np.copyto(bufs[0], X[x][0])
                    np.copyto(bufs[1], X[x][1])
                    p, r = bufs
                else:
                    p, r = X[x][0].copy(), X[x][1].copy()
                st, exp = base[c]["res"][x]
                try:
                    got = obs_of(ev(c).evaluate(p, r, **OPTSETS[optn]))
                except Exception as e:
                    if st == "OK":
                        viol.append((f"C15:evaluate_raised:{type(e).__name__}:{optn}", f"{where} raised {e!r} although a fresh evaluator evaluates this input"))
                    continue
                if not np.array_equal(p, X[x][0]) or not np.array_equal(r, X[x][1]):
                    viol.append(("C15:input_mutated", f"{where} modified the caller's arrays"))
                if st == "OK":
                    d = same_results(exp, got)
                    if d:
                        viol.append((f"C15:result_depends_on_{'options' if optn != 'default' and i == 0 else 'history'}", f"{where} reports different metrics than a fresh evaluator in a fresh process: {d[:6]}"))
            elif op[0] == "keys":
                k = list(ev(op[1]).resulting_metric_keys)
                if k != base[op[1]]["keys"]:
                    viol.append(("C15:metric_keys_changed", f"{where}: resulting_metric_keys = {k[-4:]} (len {len(k)}), a fresh evaluator advertises {base[op[1]]['keys'][-3:]} (len {len(base[op[1]]['keys'])})"))
            elif op[0] == "save":
                ev(op[1]).save_to_config("/vfs/c/e.yaml")
                if vfs.fs.files["/vfs/c/e.yaml"] != base[op[1]]["yaml"]:
                    viol.append(("C15:saved_config_changed", f"{where}: the saved configuration differs from the one a fresh evaluator saves"))
            elif op[0] == "newA":
                _, c, lt = op
                nA += 1
                path = f"/vfs/d/out{nA}.tsv"
                aggs[c] = (Panoptica_Aggregator(ev(c), path, log_times=lt), path, lt)
                head = agg.parse_tsv(vfs.fs.files[path])[0]
                if head != base[c][("agg", lt)][0]:
                    extra = [h for h in head if head.count(h) > 1 or h not in base[c][("agg", lt)][0]]
                    viol.append(("C15:aggregator_header_depends_on_history", f"{where}: header has {len(head)} columns, a fresh setup writes {len(base[c][('agg', lt)][0])}; unexpected/duplicate columns {sorted(set(extra))[:4]}"))
            elif op[0] == "aeval":
                c = op[1]
                if c not in aggs:
                    nA += 1
                    path = f"/vfs/d/out{nA}.tsv"
                    aggs[c] = (Panoptica_Aggregator(ev(c), path, log_times=False), path, False)
                A, path, lt = aggs[c]
                p, r = X[0][0].copy(), X[0][1].copy()
                n0 = len(agg.parse_tsv(vfs.fs.files[path]))
                A.evaluate(p, r, f"subj{n0}")
                rows = agg.parse_tsv(vfs.fs.files[path])
                if not np.array_equal(p, X[0][0]) or not np.array_equal(r, X[0][1]):
                    viol.append(("C15:input_mutated", f"{where} modified the caller's arrays"))
                exp_head, exp_row = base[c][("agg", lt)]
                if len(rows) != n0 + 1:
                    viol.append(("C15:aggregator_row_missing", f"{where}: no row was written"))
                else:
                    got = {h: v for h, v in zip(rows[0][1:], rows[-1][1:])}
                    exp = {h: v for h, v in zip(exp_head[1:], exp_row[1:])}
                    bad = [h for h in exp if not h.endswith("computation_time") and got.get(h) != exp[h]]
                    if bad or len(rows[-1]) != len(rows[0]):
                        viol.append(("C15:aggregator_row_depends_on_history", f"{where}: row differs from a fresh setup in {bad[:5]} (cells {len(rows[-1])} vs header {len(rows[0])})"))
            elif op[0] == "newOdd":
                odd = new_odd(op[1])
                try:
                    odd.resulting_metric_keys
                    odd.evaluate(X[0][0].copy(), X[0][1].copy(), verbose=False)
                except Exception:
                    pass
            elif op[0] == "newH":
                EdgeCaseHandler()
            elif op[0] == "direct":
                p, r = X[0][0].copy(), X[0][1].copy()
                res, _ = panoptic_evaluate(MatchedInstancePair(p, r))
                d = observe(res, metrics=("DSC", "IOU", "ASSD"))
                trace.append(("direct", d["tp"]))
                if "direct" in base:
                    pass
        except Exception as e:
            viol.append((f"C15:operation_raised:{op[0]}:{type(e).__name__}", f"{where} raised {e!r}"))
        # module-level / default-argument containers that change through use are only *reported* (evidence counter): a cache that
        # does not change any result is not a violation of the statement; what matters is judged above, operation by operation
        ms = mutable_state()
        if ms != base["mutable"]:
            changed = sorted(k for k in set(ms) | set(base["mutable"]) if ms.get(k) != base["mutable"].get(k))
            viol.append(("INFO:shared_mutable_state_changed", ",".join(changed[:3])))
            base = dict(base, mutable=ms)
    return viol


# ------------------------------------------------------------------------------------------------ semantic histories
SEMX = [
    (np.array([1, 1, 0, 2, 2, 0, 1], dtype=np.uint8), np.array([1, 1, 1, 0, 2, 0, 1], dtype=np.uint8)),
    (np.array([[1, 0, 0, 2], [0, 1, 0, 2], [0, 0, 0, 0]], dtype=np.uint8), np.array([[1, 0, 0, 2], [0, 1, 2, 0], [0, 0, 0, 1]], dtype=np.uint8)),
    (np.array([[[1, 0], [0, 0]], [[0, 0], [0, 1]]], dtype=np.uint8), np.array([[[1, 0], [0, 2]], [[0, 0], [0, 1]]], dtype=np.uint8)),
]
SEM_OPS = [("newE",), ("newShared",), ("eval", 0), ("eval", 1), ("eval", 2), ("evalOther", 1), ("evalOther", 2)]


def _sem_new(approx=None):
    from panoptica import ConnectedComponentsInstanceApproximator, Panoptica_Evaluator
    from panoptica.instance_matcher import NaiveThresholdMatching

    approx = approx or ConnectedComponentsInstanceApproximator()
    return Panoptica_Evaluator(expected_input=ITYPE["SEMANTIC"], instance_approximator=approx, instance_matcher=NaiveThresholdMatching()), approx


def _sem_baseline_child():
    out = {}
    for x in range(len(SEMX)):
        ev, _ = _sem_new()
        out[x] = obs_of(ev.evaluate(SEMX[x][0].copy(), SEMX[x][1].copy(), verbose=False))
    return out


def _sem_history_child(hist, base):
    viol = []
    ev, approx = _sem_new()
    other = None
    for i, op in enumerate(hist):
        where = f"after {list(hist[:i])} the operation {op}"
        try:
            if op[0] == "newE":
                ev, approx = _sem_new()
            elif op[0] == "newShared":
                other, _ = _sem_new(approx)
            elif op[0] in ("eval", "evalOther"):
                if op[0] == "evalOther" and other is None:
                    other, _ = _sem_new(approx)
                e = ev if op[0] == "eval" else other
                x = op[1]
                p, r = SEMX[x][0].copy(), SEMX[x][1].copy()
                got = obs_of(e.evaluate(p, r, verbose=False))
                if not np.array_equal(p, SEMX[x][0]) or not np.array_equal(r, SEMX[x][1]):
                    viol.append(("C15:input_mutated", f"{where} modified the caller's arrays"))
                d = same_results(base[x], got)
                if d:
                    viol.append(("C15:result_depends_on_history:shared_component", f"{where} ({SEMX[x][0].ndim}-D semantic input) reports different metrics than a fresh evaluator in a fresh process: {d[:6]}"))
        except Exception as e:
            viol.append((f"C15:operation_raised:{op[0]}:{type(e).__name__}", f"{where} raised {e!r}"))
    return viol


_SEMBASE: list = []


# ------------------------------------------------------------------------------------------------ merge-matcher histories
def _z12(**runs):
    a = [0] * 12
    for k, (lo, hi) in runs.items():
        a[lo:hi] = [int(k[1:])] * (hi - lo)
    return np.array(a, dtype=np.uint8)


# same shape, same labels: y0 a merge that improves (5/8 -> 1), y1 a merge that must be rejected (6/8 -> 8/11), y2 another accepted merge + a second pair
MRGX = [
    (_z12(l1=(0, 5), l2=(5, 8)), _z12(l1=(0, 8))),
    (_z12(l1=(0, 6), l2=(6, 11)), _z12(l1=(0, 8))),
    (_z12(l1=(0, 4), l2=(4, 6), l3=(8, 10)), _z12(l1=(0, 6), l2=(8, 11))),
]


def _mrg_new(matcher=None):
    from panoptica import Panoptica_Evaluator
    from panoptica.instance_matcher import MaximizeMergeMatching

    matcher = matcher or MaximizeMergeMatching(Metric.IOU, 0.5)
    return Panoptica_Evaluator(expected_input=ITYPE["UNMATCHED"], instance_matcher=matcher), matcher


def _mrg_baseline_child():
    out = {}
    for x in range(len(MRGX)):
        ev, _ = _mrg_new()
        out[x] = obs_of(ev.evaluate(MRGX[x][0].copy(), MRGX[x][1].copy(), verbose=False))
    return out


def _mrg_history_child(hist, base):
    viol = []
    ev, matcher = _mrg_new()
    other = None
    for i, op in enumerate(hist):
        where = f"after {list(hist[:i])} the operation {op}"
        try:
            if op[0] == "newE":
                ev, matcher = _mrg_new()
            elif op[0] == "newShared":
                other, _ = _mrg_new(matcher)
            elif op[0] in ("eval", "evalOther"):
                if op[0] == "evalOther" and other is None:
                    other, _ = _mrg_new(matcher)
                e = ev if op[0] == "eval" else other
                x = op[1]
                p, r = MRGX[x][0].copy(), MRGX[x][1].copy()
                got = obs_of(e.evaluate(p, r, verbose=False))
                if not np.array_equal(p, MRGX[x][0]) or not np.array_equal(r, MRGX[x][1]):
                    viol.append(("C15:input_mutated", f"{where} modified the caller's arrays"))
                d = same_results(base[x], got)
                if d:
                    viol.append(("C15:result_depends_on_history:shared_matcher", f"{where} (merge matcher, input y{x}) reports different metrics than a fresh evaluator in a fresh process: {d[:6]}"))
        except Exception as e:
            viol.append((f"C15:operation_raised:{op[0]}:{type(e).__name__}", f"{where} raised {e!r}"))
    return viol


_MRGBASE: list = []


# ------------------------------------------------------------------------------------------------ blocks
def blocks(tier):
    B = []
    cfgq = (1, 2)
    ops = alphabet(cfgq)
    n = len(ops)
    depth = 3
    for first in range(n):
        B.append(("hist", cfgq, depth, first))
    if tier == "thorough":
        for first in range(n):
            for second in range(n):
                B.append(("hist4", cfgq, first, second))
        ops2 = alphabet((0, 3))
        for first in range(len(ops2)):
            B.append(("hist", (0, 3), 3, first))
    for first in range(len(SEM_OPS)):
        B.append(("semhist", 4 if tier == "quick" else 5, first))
    for first in range(len(SEM_OPS)):
        B.append(("mrghist", 4 if tier == "quick" else 5, first))
    for c in (1, 2):
        for x in range(3):
            B.append(("opts", c, x))
    n1 = sc.grid_count((4,), 2)
    for lo, hi in sc.ranges(n1, 3):
        B.append(("perm", lo, hi))
    # numbers of instances around and beyond the number of worker processes
    ncpu = os.cpu_count() or 4
    for lo in range(1, 2 * ncpu + 8, 4):
        B.append(("many", lo, lo + 4))
    nreal = 64 if tier == "quick" else 512
    for k in range(0, nreal, 8):
        B.append(("real", k, k + 8, nreal))
    return B


def run_block(block, acc):
    kind = block[0]
    if kind == "hist":
        _, cfgs, depth, first = block
        ops = alphabet(cfgs)
        base = baseline(cfgs)
        for L in range(1, depth + 1):
            for rest in itertools.product(range(len(ops)), repeat=L - 1):
                run_case({"kind": "hist", "configs": list(cfgs), "history": [first] + list(rest)}, acc)
    elif kind == "hist4":
        _, cfgs, first, second = block
        ops = alphabet(cfgs)
        for rest in itertools.product(range(len(ops)), repeat=2):
            run_case({"kind": "hist", "configs": list(cfgs), "history": [first, second] + list(rest)}, acc)
    elif kind in ("semhist", "mrghist"):
        _, depth, first = block
        for L in range(1, depth + 1):
            for rest in itertools.product(range(len(SEM_OPS)), repeat=L - 1):
                run_case({"kind": kind, "history": [first] + list(rest)}, acc)
    elif kind == "opts":
        _, c, x = block
        for ra in (True, False):
            for sgt, lt, vb in itertools.product((None, True, False), repeat=3):
                for flags in itertools.product((False, True), repeat=3):
                    run_case({"kind": "opts", "c": c, "x": x, "result_all": ra, "sgt": sgt, "lt": lt, "vb": vb, "flags": list(flags)}, acc)
    elif kind == "perm":
        _, lo, hi = block
        n = sc.grid_count((4,), 2)
        for i in range(lo, hi):
            for j in range(n):
                run_case({"kind": "perm", "pi": i, "ri": j}, acc)
    elif kind == "many":
        for n in range(block[1], block[2]):
            for itype in ("MATCHED", "UNMATCHED", "SEMANTIC"):
                run_case({"kind": "many", "n": n, "itype": itype}, acc)
    elif kind == "real":
        _, lo, hi, nreal = block
        run_case({"kind": "real", "lo": lo, "hi": hi, "n": nreal}, acc)


def run_case(case, acc):
    kind = case["kind"]
    if kind == "hist":
        cfgs = tuple(case["configs"])
        ops = alphabet(cfgs)
        hist = [ops[i] for i in case["history"]]
        acc.case("hist", cfgs, tuple(case["history"]))
        base = baseline(cfgs)
        acc.step(len(hist))
        viol = in_child(_history_child, hist, base)
        acc.state("hist", cfgs, tuple(case["history"]))
        if len(hist) >= 2:
            acc.nontriv("hist", cfgs, tuple(case["history"]))
        acc.outcome(tuple(v[0] for v in viol))
        if acc.evaluations % 1499 == 1:
            acc.sample({"history": [list(o) for o in hist]})
        info = [v for v in viol if v[0].startswith("INFO:")]
        viol = [v for v in viol if not v[0].startswith("INFO:")]
        for sig, msg in info:
            acc.count("histories_changing_module_level_state")
        for sig, msg in viol:
            acc.violation(sig, {**case, "ops": [list(o) for o in hist]}, msg)
        if not viol:
            acc.ok()
    elif kind == "semhist":
        hist = [SEM_OPS[i] for i in case["history"]]
        acc.case("semhist", tuple(case["history"]))
        if not _SEMBASE:
            _SEMBASE.append(in_child(_sem_baseline_child))
        acc.step(len(hist))
        viol = in_child(_sem_history_child, hist, _SEMBASE[0])
        acc.state("semhist", tuple(case["history"]))
        if len({o[1] for o in hist if len(o) > 1}) >= 2:
            acc.nontriv("semhist", tuple(case["history"]))
        acc.outcome(tuple(v[0] for v in viol))
        if acc.evaluations % 499 == 1:
            acc.sample({"semantic_history": [list(o) for o in hist]})
        for sig, msg in viol:
            acc.violation(sig, {**case, "ops": [list(o) for o in hist]}, msg)
        if not viol:
            acc.ok()
    elif kind == "mrghist":
        hist = [SEM_OPS[i] for i in case["history"]]
        acc.case("mrghist", tuple(case["history"]))
        if not _MRGBASE:
            _MRGBASE.append(in_child(_mrg_baseline_child))
        acc.step(len(hist))
        viol = in_child(_mrg_history_child, hist, _MRGBASE[0])
        acc.state("mrghist", tuple(case["history"]))
        if len({o[1] for o in hist if len(o) > 1}) >= 2:
            acc.nontriv("mrghist", tuple(case["history"]))
        acc.outcome(tuple(v[0] for v in viol))
        if acc.evaluations % 499 == 1:
            acc.sample({"merge_matcher_history": [list(o) for o in hist]})
        for sig, msg in viol:
            acc.violation(sig, {**case, "ops": [list(o) for o in hist]}, msg)
        if not viol:
            acc.ok()
    elif kind == "opts":
        acc.case("opts", case["c"], case["x"], case["result_all"], case["sgt"], case["lt"], case["vb"], tuple(case["flags"]))
        base = baseline((1, 2))
        acc.step()
        viol = in_child(_opts_child, case, base)
        acc.state("opts", repr(case))
        if any(v is not None for v in (case["sgt"], case["lt"], case["vb"])) or any(case["flags"]):
            acc.nontriv("opts", repr(case))
        acc.outcome(tuple(v[0] for v in viol))
        for sig, msg in viol:
            acc.violation(sig, case, msg)
        if not viol:
            acc.ok()
    elif kind == "many":
        _many(case, acc)
    elif kind == "perm":
        _perm(case, acc)
    elif kind == "real":
        _real(case, acc)


def _opts_child(case, base):
    c, x = case["c"], case["x"]
    viol = []
    st, exp = base[c]["res"][x]
    tag = f"config c{c} input x{x} constructor flags (save_group_times, log_times, verbose)={case['flags']} call options result_all={case['result_all']} save_group_times={case['sgt']} log_times={case['lt']} verbose={case['vb']}"
    try:
        ev = new_evaluator(c, flags=case["flags"])
        p, r = X[x][0].copy(), X[x][1].copy()
        got = obs_of(ev.evaluate(p, r, result_all=case["result_all"], save_group_times=case["sgt"], log_times=case["lt"], verbose=case["vb"]))
    except Exception as e:
        if st == "OK":
            return [(f"C15:options_raise:{type(e).__name__}", f"{tag}: evaluate raised {e!r}")]
        return []
    if not np.array_equal(p, X[x][0]) or not np.array_equal(r, X[x][1]):
        viol.append(("C15:input_mutated", f"{tag}: caller's arrays modified"))
    if st == "OK":
        d = same_results(exp, got)
        if d:
            viol.append(("C15:result_depends_on_options", f"{tag}: metrics differ from the default-option evaluation in {d[:6]}"))
    return viol


def _perm(case, acc):
    """serial pool vs every execution order of the tasks of each pool call"""
    from ..lib import make_evaluator

    pred, ref = sc.grid(case["pi"], (4,), 2), sc.grid(case["ri"], (4,), 2)
    acc.case("perm", case["pi"], case["ri"])
    ev = make_evaluator("UNMATCHED", matcher=["thr", "IOU", 0.3, False])
    seams.PoolMode.mode = "serial"
    seams.PoolMode.log = []
    try:
        base = obs_of(ev.evaluate(pred.copy(), ref.copy(), verbose=False))
    except Exception:
        seams.PoolMode.log = None
        return
    sizes = list(seams.PoolMode.log)
    seams.PoolMode.log = None
    if not any(s >= 2 for s in sizes):
        return
    acc.nontriv("perm", case["pi"], case["ri"])
    ok = True
    for call_idx, n in enumerate(sizes):
        if n < 2:
            continue
        for perm in itertools.permutations(range(n)):
            if perm == tuple(range(n)):
                continue
            calls = [0]

            def order(k, call_idx=call_idx, perm=perm, calls=calls):
                i = calls[0]
                calls[0] += 1
                return list(perm) if i == call_idx and k == len(perm) else list(range(k))

            seams.PoolMode.mode = "permute"
            seams.PoolMode.perm_iter = order
            acc.step()
            try:
                got = obs_of(ev.evaluate(pred.copy(), ref.copy(), verbose=False))
            finally:
                seams.PoolMode.mode = "serial"
                seams.PoolMode.perm_iter = None
            acc.state("perm", case["pi"], case["ri"], call_idx, perm)
            d = same_results(base, got)
            if d:
                acc.violation("C15:result_depends_on_task_order", {**case, "call": call_idx, "perm": list(perm)}, f"pred={pred.tolist()} ref={ref.tolist()}: executing the {n} tasks of pool call #{call_idx} in order {perm} changes {d[:6]}")
                ok = False
    if ok:
        acc.ok()


def _many(case, acc):
    """n well separated instances, every prediction a 3-voxel run inside a 4-voxel reference run: whatever way the per-instance work
    is split over workers, tp = n, every IoU = 3/4, rq = 1"""
    from ..lib import make_evaluator

    n, itype = case["n"], case["itype"]
    acc.case("many", n, itype)
    ref = np.zeros(6 * n + 2, dtype=np.uint16)
    pred = np.zeros(6 * n + 2, dtype=np.uint16)
    for k in range(n):
        lab = 1 if itype == "SEMANTIC" else k + 1
        ref[6 * k + 1 : 6 * k + 5] = lab
        pred[6 * k + 1 : 6 * k + 4] = lab
    acc.step()
    try:
        ev = make_evaluator(itype, matcher=None if itype == "MATCHED" else ["thr", "IOU", 0.5, False], backend="default" if itype == "SEMANTIC" else "none", instance_metrics=("DSC", "IOU"))
        o = observe(ev.evaluate(pred.copy(), ref.copy(), verbose=False)["ungrouped"][0], metrics=("DSC", "IOU"), with_global=False)
    except Exception as e:
        acc.violation(f"C15:many_raised:{type(e).__name__}", case, f"{n} instances, {itype}: evaluate raised {e!r}")
        return
    acc.state("many", n, itype)
    if n > (os.cpu_count() or 4):
        acc.nontriv("many", n, itype)
    good = o["tp"] == n and o["fp"] == 0 and o["fn"] == 0 and isinstance(o["list_IOU"], list) and len(o["list_IOU"]) == n and all(abs(v - 0.75) < 1e-12 for v in o["list_IOU"]) and abs(o["rq"] - 1.0) < 1e-12
    if not good:
        acc.violation("C15:result_depends_on_instance_count_vs_workers", case, f"{n} identical well separated instances ({itype}, {os.cpu_count()} CPUs): tp/fp/fn={o['tp']}/{o['fp']}/{o['fn']}, {len(o['list_IOU']) if isinstance(o['list_IOU'], list) else o['list_IOU']} IoU values, rq={o['rq']}; expected tp={n}, every IoU 0.75, rq 1")
    else:
        acc.ok()


def _real_child(pairs):
    from ..lib import make_evaluator

    out = []
    for p, r in pairs:
        res = []
        for mode in ("serial", "real"):
            seams.PoolMode.mode = mode
            ev = make_evaluator("UNMATCHED", matcher=["thr", "IOU", 0.3, False])
            try:
                res.append(obs_of(ev.evaluate(p.copy(), r.copy(), verbose=False)))
            except Exception as e:
                res.append({"EXC": {"e": type(e).__name__}})
        seams.PoolMode.mode = "serial"
        out.append(res)
    return out


def _real(case, acc):
    """the real multiprocessing.Pool against the serial seam (conformance of the pool seam and half of 'worker independence')"""
    tot = sc.grid_count((2, 3), 2)
    idx = [((k * 7919 + 13) % tot, (k * 104729 + 7) % tot) for k in range(case["lo"], case["hi"])]
    pairs = [(sc.grid(i, (2, 3), 2), sc.grid(j, (2, 3), 2)) for i, j in idx]
    acc.case("real", case["lo"], case["hi"])
    res = in_child(_real_child, pairs)
    for (i, j), (a, b) in zip(idx, res):
        acc.step(2)
        acc.state("real", i, j)
        acc.nontriv("real", i, j)
        d = same_results(a, b) if "EXC" not in a and "EXC" not in b else ([] if a == b else ["exception"])
        if d:
            acc.violation("C15:result_depends_on_pool", {**case, "pi": i, "ri": j}, f"G2(2,3,2) pair ({i},{j}): real multiprocessing.Pool and serial execution differ in {d[:6]}")
        else:
            acc.ok()
    acc.sample({"real_pool_pairs": idx[:3]})
