"""C16 - concurrent aggregation records every subject exactly once, intact.

The real Panoptica_Aggregator runs on real threads under an owned cooperative scheduler with a scheduling point before
every lock acquisition and every file operation (in-memory file system). For every worker set all reachable states are
explored (explicit-state BFS with stateless replay); the oracle is evaluated on every terminal state. Thread mode (one
shared aggregator object) and forked-process mode (each worker owns a deep copy of the aggregator object, as fork gives
it; locks created at import and the file system stay shared).
"""
from __future__ import annotations

import copy
import time

import numpy as np

from .. import agg, sched, seams, vfs
from ..lib import make_evaluator

ID = "C16"
LEVEL = "model_checking"
RULE = (
    "worker sets {s1,s2}, {s1,s1}, {s1,s2,s1}, {s1,s2,stat}, {s1,s1,stat}, {s1,s2,s3}, {bad,s1,s1}, {bad,s1,stat} (bad = a call whose evaluation raises) (thorough: + {s1,s2,s1,stat}, {s1,s1,s1,s2} and a 9000-character subject name whose row is flushed early) x "
    "{thread mode, forked-process mode} x initial file {header only, header + one finished subject s0}; ALL reachable states of the interleavings of lock acquisitions and file operations "
    "(evaluate = 8-9 scheduling points, make_statistic = 3; the unlocked compute phase is one step). transitions = single scheduling steps, each validated by replaying the real code from the initial state. "
    "line granularity inside panoptica_aggregator.py (every tier; thread mode, 2 workers, one preemption before every source line of that module the preempted worker executes, sets {s1,s2}, {s1,s1}, {s1,stat}); thorough additionally: line granularity in all modules - thread mode, 2 workers, one preemption before EVERY source line the preempted worker executes inside panoptica/* (about 5500 per evaluate), for worker sets {s1,s2}, {s1,s1}, {s1,stat} and either worker preempted; "
    "non-trivial = terminal states reached through at least one preemption; distinct by explored state. Toy programs with known state counts / a known race / a known deadlock validate the explorer in every run"
)
ASSUMPTIONS = [
    "scheduling points at lock acquisitions and file operations are sufficient because evaluate() touches no other shared mutable object between them (checked separately: C15 purity and tools/free_run.py, a free-running pass with real threads/processes and real locks on real files)",
    "a single flush is atomic (one write(2) in O_APPEND mode), measured with strace for rows up to 20 kB",
    "make_statistic() on a file without rows raises IndexError by construction of Panoptica_Statistic (no statistics object exists, so nothing reflects incomplete rows); tolerated and counted",
]
BUDGET = {"quick": 240, "thorough": 2400}
ROTATE = False

P1 = np.array([[1, 1, 0, 0], [0, 0, 2, 2]], dtype=np.uint8)
R1 = np.array([[1, 1, 1, 0], [0, 0, 2, 0]], dtype=np.uint8)
P2 = np.array([[1, 0, 0, 0], [0, 0, 0, 2]], dtype=np.uint8)
R2 = np.array([[1, 1, 0, 0], [0, 0, 0, 0]], dtype=np.uint8)
P3 = np.array([[0, 0, 0, 0], [0, 0, 0, 0]], dtype=np.uint8)
R3 = np.array([[0, 3, 3, 0], [0, 0, 0, 0]], dtype=np.uint8)
DATA = {"s1": (P1, R1), "s2": (P2, R2), "s3": (P3, R3), "s0": (P2, R1)}
LONG = "L" * 9000

# "bad" = a call whose evaluation raises (prediction and reference of different shape): it must not disturb the others
SETS_Q = [("s1", "s2"), ("s1", "s1"), ("s1", "s2", "s1"), ("s1", "s2", "stat"), ("s1", "s1", "stat"), ("s1", "s2", "s3"), ("bad", "s1", "s1"), ("bad", "s1", "stat")]
SETS_T = SETS_Q + [("s1", "s2", "s1", "stat"), ("s1", "s1", "s1", "s2"), ("LONG", "s1"), ("LONG", "LONG", "stat")]


LINE_SETS = [("s1", "s2"), ("s1", "s1"), ("s1", "stat")]


def blocks(tier):
    B = [("toys",)]
    # line granularity inside the aggregator module (every tier): one preemption before every source line of panoptica_aggregator.py
    # that the preempted worker executes; thorough: inside every module of the library (about 5500 lines per evaluate)
    for ws in LINE_SETS:
        for first in (0, 1):
            B.append(("line", ws, first, 0, 400, "panoptica_aggregator.py"))
    if tier == "thorough":
        for ws in LINE_SETS:
            for first in (0, 1):
                for lo in range(0, 7000, 250):
                    B.append(("line", ws, first, lo, lo + 250, ""))
    for ws in SETS_Q if tier == "quick" else SETS_T:
        for mode in ("thread", "process"):
            for init in ("header", "one_row"):
                if len(ws) >= 4 and init == "one_row":
                    continue
                B.append(("set", ws, mode, init))
    return B


def run_block(block, acc):
    if block[0] == "toys":
        run_case({"kind": "toys"}, acc)
    elif block[0] == "line":
        _, ws, first, lo, hi, module = block
        run_case({"kind": "line", "workers": list(ws), "first": first, "lo": lo, "hi": hi, "module": module}, acc)
    else:
        _, ws, mode, init = block
        run_case({"kind": "set", "workers": list(ws), "mode": mode, "init": init}, acc)


BAD = (np.zeros((2, 4), dtype=np.uint8), np.zeros((3, 4), dtype=np.uint8))


def _data(name):
    if name == "bad":
        return BAD
    return DATA["s1"] if name == "LONG" else DATA[name]


def _name(name):
    return LONG if name == "LONG" else name


class Fixture:
    """evaluator + aggregator constructed once on the in-memory file system; the post-construction file system is the
    initial state of every replay"""

    def __init__(self, init, names):
        from panoptica import Panoptica_Aggregator

        vfs.reset(dirs=["/vfs/d"])
        sched.reset_locks()
        agg.drop_exit_handlers()
        self.ev = make_evaluator("UNMATCHED", matcher=["thr", "IOU", 0.5, False], instance_metrics=("DSC", "IOU"), global_metrics=("DSC",))
        self.A = Panoptica_Aggregator(self.ev, "/vfs/d/out.tsv")
        if init == "one_row":
            self.A.evaluate(DATA["s0"][0].copy(), DATA["s0"][1].copy(), "s0")
        self.files0 = dict(vfs.fs.files)
        # module-level state of the library as it is right after construction: every replay (and every sequential reference run)
        # starts from a fresh copy of it, exactly as it starts from a fresh copy of the aggregator object and of the files
        self.image = sched.capture_image()
        self.header = agg.parse_tsv(self.files0["/vfs/d/out.tsv"])[0]
        self.base_rows = agg.parse_tsv(self.files0["/vfs/d/out.tsv"])[1:]
        # sequential reference rows
        self.seq_rows = {}
        self.seq_raises = {}
        for n in sorted(set(names)):
            if n == "stat":
                continue
            vfs.reset(dict(self.files0), dirs=["/vfs/d"])
            sched.restore_image(self.image)
            try:
                copy.deepcopy(self.A).evaluate(_data(n)[0].copy(), _data(n)[1].copy(), _name(n))
            except Exception as e:
                self.seq_raises[_name(n)] = type(e).__name__
                continue
            rows = agg.parse_tsv(vfs.fs.files["/vfs/d/out.tsv"])
            self.seq_rows[_name(n)] = rows[-1]
        agg.drop_exit_handlers()

    def make(self, workers, mode):
        def mk():
            vfs.reset(dict(self.files0), dirs=["/vfs/d"])
            sched.reset_locks()
            sched.restore_image(self.image)
            bodies = []
            shared = copy.deepcopy(self.A)  # every replay starts from the pristine post-construction object (in-memory state included)
            objs = []
            for w in workers:
                A = shared if mode == "thread" else copy.deepcopy(self.A)
                objs.append(A)
                if w == "stat":
                    bodies.append(lambda A=A: _stat_body(A))
                else:
                    p, r = _data(w)
                    bodies.append(lambda A=A, p=p, r=r, n=_name(w): A.evaluate(p.copy(), r.copy(), n))
            # the in-memory state of the aggregator object(s) is part of the explored state: without it, states that differ only in
            # shared memory would be merged and interleavings behind them pruned
            uniq = objs[:1] if mode == "thread" else objs
            return bodies, list(sched.ALL_LOCKS), {"mem_digest": lambda: hash((tuple(sched.digest(o) for o in uniq), sched.global_state_digest())), "proc_images": mode == "process", "image": self.image}

        return mk


def _stat_body(A):
    try:
        st = A.make_statistic()
    except IndexError:
        return ("NOROWS", None)
    return ("STAT", {s: st.get_one_subject(s) for s in st.subjectnames}, list(st.subjectnames))


def _row_values(header, row):
    return {h: c for h, c in zip(header[1:], row[1:])}


def run_case(case, acc):
    if case["kind"] == "toys":
        return _toys(case, acc)
    if case["kind"] == "line":
        return _line(case, acc)
    workers, mode, init = case["workers"], case["mode"], case["init"]
    acc.case("set", tuple(workers), mode, init)
    fx = Fixture(init, workers)
    judge = make_judge(acc, case, fx, workers, mode, init)
    return _explore(acc, case, fx, workers, mode, init, judge)


def make_judge(acc, case, fx, workers, mode, init):
    submitted = [_name(w) for w in workers if w != "stat"]
    expect_names = sorted(n for n in set(submitted) if n not in fx.seq_raises)
    nviol = [0]

    def judge(ex, ctx, schedule):
        c2 = {**{k: v for k, v in case.items() if k != "schedule"}, "schedule": schedule}
        tag = f"workers={['LONG' if len(w) > 100 else w for w in workers]} mode={mode} init={init} schedule={schedule}"
        acc.outcome(vfs.fs.files.get("/vfs/d/out.tsv", "").count("\n"), tuple(sorted(r[0][:3] for r in agg.parse_tsv(vfs.fs.files.get("/vfs/d/out.tsv", ""))[1:])))
        ok = True
        if ex.final_deadlock:
            blocked = [(w.wid, w.pending[0] if w.pending else None) for w in ex.workers if not w.done]
            acc.violation("C16:deadlock", c2, f"{tag}: no worker can proceed, blocked: {blocked}")
            return
        for w in ex.workers:
            if w.exc is not None:
                if fx.seq_raises.get(_name(workers[w.wid])) == type(w.exc).__name__:
                    continue  # this call raises in a sequential run as well (invalid input): no row is expected for it
                acc.violation(f"C16:worker_raised:{type(w.exc).__name__}", c2, f"{tag}: worker {w.wid} ({workers[w.wid][:6]}) raised {w.exc!r}")
                ok = False
        rows = agg.parse_tsv(vfs.fs.files.get("/vfs/d/out.tsv", ""))
        if not rows or rows[0] != fx.header:
            acc.violation("C16:header", c2, f"{tag}: header damaged: {rows[:1]}")
            return
        body = rows[1:]
        names = [r[0] for r in body[len(fx.base_rows):]]
        if body[: len(fx.base_rows)] != fx.base_rows:
            acc.violation("C16:earlier_rows_changed", c2, f"{tag}: rows present before the concurrent calls were altered")
            ok = False
        short = lambda n: "LONG" if len(n) > 100 else n  # noqa: E731
        if sorted(names) != expect_names:
            dup = sorted({short(n) for n in names if names.count(n) > 1})
            miss = sorted(short(n) for n in expect_names if n not in names)
            kind = "duplicate_row" if dup else "missing_row" if miss else "unexpected_row"
            acc.violation(f"C16:{kind}:{mode}", c2, f"{tag}: output has rows for {[short(n) for n in names]}, expected exactly one row for each of {[short(n) for n in expect_names]}")
            ok = False
        for r in body[len(fx.base_rows):]:
            exp = fx.seq_rows.get(r[0])
            if exp is None:
                continue
            if len(r) != len(fx.header) or r != exp:
                acc.violation("C16:row_differs_from_sequential", c2, f"{tag}: row of {short(r[0])} is {r[1:6]}..., a sequential run writes {exp[1:6]}...")
                ok = False
        # statistics objects built at any moment reflect only complete rows of submitted (or earlier) subjects
        allowed = {r[0]: r for r in fx.base_rows}
        allowed.update(fx.seq_rows)
        for w in ex.workers:
            if workers[w.wid] != "stat" or w.exc is not None or w.result is None:
                continue
            if w.result[0] == "NOROWS":
                acc.count("make_statistic_on_header_only_file")
                continue
            _, per, snames = w.result
            for s in snames:
                if s not in allowed:
                    acc.violation("C16:statistic_unknown_subject", c2, f"{tag}: statistics lists subject {short(s)!r} that was never submitted")
                    ok = False
                    continue
                exp = _row_values(fx.header, allowed[s])
                for g, md in per[s].items():
                    for m, v in md.items():
                        cell = exp.get(f"{g}-{m}", "")
                        want = None
                        if cell != "":
                            f = float(cell)
                            want = f if np.isfinite(f) else None
                        if (v is None) != (want is None) or (v is not None and float(v) != want):
                            acc.violation("C16:statistic_value", c2, f"{tag}: statistics built concurrently reports {g}-{m}={v!r} for {short(s)!r}, the complete row says {cell!r}")
                            ok = False
        if ex.preemptions > 0:
            acc.nontriv(tuple(workers), mode, init, tuple(schedule))
        if len(judge.examples) < 2 and ex.preemptions > 0:
            judge.examples.append({"schedule(worker ids)": list(schedule), "trace_of_worker_0": ex.workers[0].trace[:12]})
        if ok:
            acc.ok()
        else:
            nviol[0] += 1

    judge.examples = []
    judge.nviol = nviol
    return judge


def _explore(acc, case, fx, workers, mode, init, judge):
    if "schedule" in case:
        # replay of one recorded schedule without the explorer (twice: observations must be identical)
        keys = []
        for _ in range(2):
            bodies, locks, _c = fx.make(workers, mode)()
            ex = sched.Execution(bodies, locks)
            ex.mem_digest = _c["mem_digest"]
            if _c.get("proc_images"):
                ex.proc_images = sched.ProcImages(len(bodies), _c.get("image"))
            ex.run(list(case["schedule"]), stop=False)
            keys.append((vfs.fs.snapshot(), tuple(ex.choices)))
        if keys[0] != keys[1]:
            raise sched.ReplayDivergence("the same schedule produced different observations")
        judge(ex, None, list(ex.choices))
        return
    t0 = time.time()
    # once a worker set has produced violations there is nothing more to decide for it: stop that exploration early
    st = sched.explore_states(fx.make(workers, mode), judge, max_states=150000, should_stop=lambda: len(acc.violations) >= 5)
    acc.states.update(range(0))  # (state hashes are kept inside the explorer; counts are added below)
    acc.count("states_" + "_".join(w[:4] for w in workers) + f"_{mode}_{init}", st["states"])
    acc.count("explorer_states", st["states"])
    acc.count("explorer_transitions", st["transitions"])
    acc.count("explorer_terminal_states", st["terminals"])
    acc.count("explorer_replays", st["executions"])
    acc.count("max_depth", 0)
    if st["capped"]:
        acc.count("capped_worker_sets")
    for i in range(st["states"]):
        acc.state(tuple(workers), mode, init, i)
    acc.step(st["transitions"])
    acc.validated += st["executions"]  # every transition is a replay of the real code from the initial state
    acc.sample({"workers": ["<9000 chars>" if w == "LONG" else w for w in workers], "mode": mode, "initial_file": init, "states": st["states"], "transitions": st["transitions"], "terminal_states": st["terminals"],
                "max_depth": st["max_depth"], "wall_s": round(time.time() - t0, 1), "example_terminal_schedules": judge.examples})
    agg.drop_exit_handlers()


# ------------------------------------------------------------------------------------------------ explorer validation
def _toys(case, acc):
    acc.case("toys")

    def make_ind():
        vfs.reset(dirs=["/vfs/t"])

        def body(i):
            def f():
                for k in range(2):
                    with open(f"/vfs/t/f{i}", "a") as h:
                        h.write("x")

            return f

        return [body(0), body(1)], [], None

    st = sched.explore_states(make_ind, lambda ex, ctx, s: None)
    if st["states"] != 36 or st["terminals"] != 1:
        raise RuntimeError(f"explorer self-test failed: independent workers gave {st}, expected 36 states (6 positions each), 1 terminal")

    res = []

    def make_lost():
        vfs.reset({"/vfs/t/c": "0\n"})

        def body():
            with open("/vfs/t/c", "r") as h:
                v = int(h.read().split()[-1])
            with open("/vfs/t/c", "a") as h:
                h.write(str(v + 1) + "\n")

        return [body, body], [], None

    sched.explore_states(make_lost, lambda ex, ctx, s: res.append(vfs.fs.files["/vfs/t/c"]))
    if "0\n1\n1\n" not in res or "0\n1\n2\n" not in res:
        raise RuntimeError(f"explorer self-test failed: lost update not found, outcomes {sorted(set(res))}")
    dl = []

    def make_dl():
        vfs.reset(dirs=["/vfs/t"])
        A, B = sched.SchedLock(), sched.SchedLock()
        sched.ALL_LOCKS.remove(A)
        sched.ALL_LOCKS.remove(B)

        def b1():
            with A:
                with B:
                    pass

        def b2():
            with B:
                with A:
                    pass

        return [b1, b2], [A, B], None

    sched.explore_states(make_dl, lambda ex, ctx, s: dl.append(ex.final_deadlock))
    if True not in dl or False not in dl:
        raise RuntimeError(f"explorer self-test failed: lock-order inversion gave {dl}")
    # a violating schedule must replay identically twice
    bodies, locks, _ = make_lost()
    e1 = sched.Execution(bodies, locks).run([0, 0, 0, 1, 1, 1, 1, 1, 0, 0], stop=False)
    f1 = vfs.fs.files["/vfs/t/c"]
    bodies, locks, _ = make_lost()
    e2 = sched.Execution(bodies, locks).run([0, 0, 0, 1, 1, 1, 1, 1, 0, 0], stop=False)
    if f1 != vfs.fs.files["/vfs/t/c"] or e1.choices != e2.choices:
        raise RuntimeError("explorer self-test failed: replaying one schedule twice diverged")
    acc.count("explorer_selftests_passed", 4)
    acc.state("toys")
    acc.step(4)
    acc.ok()


# ------------------------------------------------------------------------------------------------ line granularity
def _line(case, acc):
    """thread mode, 2 workers, ONE preemption placed before every single source line the first worker executes inside
    panoptica/* (also inside the 'atomic' compute phase), the other worker then runs as far as it can: exposes shared
    in-memory state that the lock/file-level exploration treats as one step"""
    workers, first, lo, hi = case["workers"], case["first"], case["lo"], case["hi"]
    mode, init = "thread", "header"
    acc.case("line", tuple(workers), first, lo, hi, case.get("module", ""))
    fx = Fixture(init, workers)
    judge = make_judge(acc, {**case}, fx, workers, mode, init)
    root = seams.REPO.rstrip("/") + "/panoptica/" + case.get("module", "")

    def run(idx):
        bodies, locks, _c = fx.make(workers, mode)()
        ex = sched.Execution(bodies, locks)
        ex.line_targets = {first: idx}
        ex.line_root = root
        order = [first, 1 - first]

        def policy(e, en):
            cur = e.last
            if cur is None:
                return order[0] if order[0] in en else en[0]
            w = e.workers[cur]
            if cur in en and not (w.pending is not None and w.pending[0] == "line"):
                return cur
            others = [x for x in en if x != cur]
            return others[0] if others else cur

        ex.run([], stop=False, policy=policy)
        return ex

    # number of line events of the first worker (a run whose target is never reached)
    probe = run(-1)
    total = getattr(probe.workers[first], "nlines", 0)
    acc.count(f"line_events_{case.get('module', '') or 'all_modules'}_worker{first}_{'_'.join(workers)}", total if lo == 0 else 0)
    n = 0
    only = [x["line_index"] for x in case.get("schedule", []) if isinstance(x, dict) and "line_index" in x]
    for idx in (only or range(max(lo, 1), min(hi, total + 1))):
        ex = run(idx)
        n += 1
        acc.step()
        acc.state("line", tuple(workers), first, idx, case.get("module", ""))
        c2sched = {"line_index": idx, "at": getattr(ex.workers[first], "line_at", None)}
        judge(ex, None, [c2sched])
    if n:
        acc.sample({"line_granularity": {"workers": workers, "preempted_worker": first, "line_events_of_that_worker": total, "preemption_points_in_this_block": [max(lo, 1), min(hi, total + 1) - 1]}})
    agg.drop_exit_handlers()
