"""C17 - aggregation survives crashes, restarts and neighbouring aggregators.

(a) crash enumeration: every initial state of the output file x session 1 killed before every one of its lock/file
operations x session 2 killed before every operation (or completing) x a final session that resubmits every subject; the real
Panoptica_Aggregator runs on the in-memory file system, a kill makes every later operation of that session a no-op and drops
unflushed data and atexit callbacks. (b) explicit-state BFS over histories of several aggregators on the same and on sibling
output files. (c) conformance of the in-memory file system with the real OS on replayed histories.
"""
from __future__ import annotations

import copy
import itertools
import os
import shutil
import tempfile

import numpy as np

from .. import agg, sched, seams, vfs
from ..lib import make_evaluator

ID = "C17"
LEVEL = "fault_enumeration"
RULE = (
    "(a) initial output file in {absent, empty, header only, header + row of s1, header + all rows, header + stale buffer with a claim} x session 1 (constructor + evaluate(s1) + evaluate(s3) where s3 has an empty prediction (blank cells in its row) and a name containing a double quote and a tab (quoted in the file), optionally ending with its atexit callbacks) killed "
    "before operation k for every k (or not at all) x session 2 likewise x final complete session resubmitting all subjects (thorough: 3 subjects; additionally THREE killed sessions in a row with every combination of crash points, 2 subjects); "
    "(b) BFS over histories of operations {new A, new B (sibling in the same directory), new C, restart A (new object on A's file without exit), X.evaluate(s1|s3), exit(X)} for three file-naming schemes (x/y, study.fold1/study.fold2, model/model.v1.0/model_2) up to depth 6 (thorough 8) with state = file system contents + live aggregators; "
    "(c) every sequential history of length <= 3 replayed on a real temporary directory and on the in-memory file system (identical final bytes). "
    "non-trivial = a history in which at least one session was killed after its first write, or two aggregators are alive; distinct by (initial state, crash points) / explored state"
)
ASSUMPTIONS = [
    "kill = the process stops between two operations: later operations (including with-block unwinding) do not happen, unflushed handle buffers are lost, no atexit callback runs; a single flush is atomic (no torn single writes, no power-loss reordering)",
    "the next session starts with fresh (unheld) locks and the file system as left",
]
BUDGET = {"quick": 240, "thorough": 2400}

P1 = np.array([[1, 1, 0, 0], [0, 0, 2, 2]], dtype=np.uint8)
R1 = np.array([[1, 1, 1, 0], [0, 0, 2, 0]], dtype=np.uint8)
P2 = np.array([[1, 0, 0, 0], [0, 0, 0, 2]], dtype=np.uint8)
R2 = np.array([[1, 1, 0, 0], [0, 0, 0, 0]], dtype=np.uint8)
P3 = np.array([[0, 0, 0, 0], [0, 0, 0, 0]], dtype=np.uint8)
R3 = np.array([[0, 3, 3, 0], [0, 0, 0, 0]], dtype=np.uint8)
DATA = {"s1": (P1, R1), "s2": (P2, R2), "s3": (P3, R3)}
OUT = "/vfs/d/out.tsv"
NAME = {"s1": "s1", "s2": "s2", "s3": 'ph"antom\t3'}
INITS = ("absent", "empty", "header", "header+s1", "header+all", "header+stale_buffer")


class CountingEvaluator:
    """counts evaluate() calls per input so that re-evaluation of finished subjects is visible"""

    calls: list = []


def _make_ev():
    from panoptica import Panoptica_Evaluator
    from ..lib import ITYPE, Metric, make_matcher

    class Ev(Panoptica_Evaluator):
        def evaluate(self, prediction_arr, reference_arr, *a, **k):
            CountingEvaluator.calls.append(prediction_arr.tobytes() + reference_arr.tobytes())
            return super().evaluate(prediction_arr, reference_arr, *a, **k)

    return Ev(expected_input=ITYPE["UNMATCHED"], instance_matcher=make_matcher(["thr", "IOU", 0.5, False]), instance_metrics=[Metric.DSC, Metric.IOU], global_metrics=[Metric.DSC])


_REF: dict = {}


def reference(subjects):
    """uninterrupted run: header text and the row of every subject"""
    key = tuple(subjects)
    if key not in _REF:
        from panoptica import Panoptica_Aggregator

        vfs.reset(dirs=["/vfs/d"])
        sched.reset_locks()
        ev = _make_ev()
        A = Panoptica_Aggregator(ev, OUT)
        for s in subjects:
            A.evaluate(DATA[s][0].copy(), DATA[s][1].copy(), NAME[s])
        rows = agg.parse_tsv(vfs.fs.files[OUT])
        agg.drop_exit_handlers()
        lines = vfs.fs.files[OUT].splitlines(keepends=True)
        inv = {v: k for k, v in NAME.items()}
        _REF[key] = dict(header=rows[0], header_line=lines[0], rows={inv[r[0]]: r for r in rows[1:]}, lines={inv[r[0]]: l for r, l in zip(rows[1:], lines[1:])})
    return _REF[key]


def initial_files(init, subjects):
    ref = reference(subjects)
    if init == "absent":
        return {}
    if init == "empty":
        return {OUT: ""}
    if init == "header":
        return {OUT: ref["header_line"]}
    if init == "header+s1":
        return {OUT: ref["header_line"] + ref["lines"]["s1"]}
    if init == "header+all":
        return {OUT: ref["header_line"] + "".join(ref["lines"][s] for s in subjects)}
    if init == "header+stale_buffer":
        import csv as _csv, io as _io

        buf = _io.StringIO()
        w = _csv.writer(buf, delimiter="\t", lineterminator="\n")
        w.writerow(["subject_name"])
        for s_ in subjects:
            w.writerow([NAME[s_]])
        stale = buf.getvalue()
        return {OUT: ref["header_line"] + ref["lines"]["s1"], "/vfs/d/out_panoptica_aggregator_tmp.tsv": stale, "/vfs/d/panoptica_aggregator_tmp.tsv": stale}
    raise ValueError(init)


PRISTINE_IMAGE = sched.capture_image()  # module-level data of the library before any use: what every new process starts from
LAST_ERROR: list = []
GRAVEYARD: list = []  # objects of killed processes: never finalized (a kill runs no finalizer, no __del__, no atexit)


def session(subjects, crash_at, with_exit, out=OUT):
    """one process: construct the aggregator, submit the subjects, maybe run the exit handlers. crash_at = index of the
    operation before which the process is killed (None = never). Returns number of operations performed."""
    from panoptica import Panoptica_Aggregator

    sched.reset_locks()
    sched.restore_image(PRISTINE_IMAGE)
    agg.drop_exit_handlers()
    vfs.fs.crashed = False
    vfs.fs.nops = 0
    vfs.fs.open_handles = []

    def hook(kind, detail):
        if crash_at is not None and vfs.fs.nops - 1 == crash_at:
            vfs.crash_now()

    vfs.on_op = hook
    ev = A = None
    clean_exit = False
    try:
        ev = _make_ev()
        A = Panoptica_Aggregator(ev, out)
        for s in subjects:
            A.evaluate(DATA[s][0].copy(), DATA[s][1].copy(), NAME[s])
        if with_exit:
            agg.run_exit_handlers()
            # a process that exits normally also finalizes its objects
            clean_exit = True
            A = ev = None  # reference counting finalizes them here, inside the session
    except vfs.Crash as e:
        # a killed process runs no finalizer: whatever it had in memory (also a half-constructed aggregator referenced only
        # from the traceback) is parked forever
        GRAVEYARD.append(e)
    except Exception as e:  # a session that dies with an exception is reported by the caller (LAST_ERROR)
        LAST_ERROR.append(e)
        GRAVEYARD.append(e)
    finally:
        if not clean_exit:
            GRAVEYARD.append((ev, A))
        vfs.on_op = None
        n = vfs.fs.nops
        # the process is gone: nothing of it survives except the files
        for h in list(vfs.fs.open_handles):
            h._dead = True
        vfs.fs.open_handles = []
        vfs.fs.crashed = False
        agg.drop_exit_handlers()
    return n


_NOPS: dict = {}


def session_length(init, subjects, with_exit):
    key = (init, tuple(subjects), with_exit)
    if key not in _NOPS:
        vfs.reset(initial_files(init, subjects), dirs=["/vfs/d"])
        _NOPS[key] = max(session(subjects, None, with_exit), 33)
    return _NOPS[key]


def blocks(tier):
    B = []
    # s3 has an empty prediction: its complete row legitimately contains blank cells (prec is not computable)
    subj = ("s1", "s3") if tier == "quick" else ("s1", "s2", "s3")
    for init in INITS:
        for ex1 in (False, True):
            n1 = 40 if tier == "quick" else 52
            for lo in range(0, n1, 4):
                B.append(("crash", tier, init, subj, ex1, lo, lo + 4))
    if tier == "thorough":
        # three killed sessions in a row before the final one (two subjects, every combination of crash points)
        for init in INITS:
            for k1 in range(0, 36):
                B.append(("crash3", init, k1))
    for scheme in SCHEMES:
        B.append(("hist", tier, scheme))
    B.append(("envconf",))
    return B


def run_block(block, acc):
    if block[0] == "crash":
        _, tier, init, subj, ex1, lo, hi = block
        n1 = session_length(init, list(subj), ex1)
        for k1 in range(lo, hi):
            if k1 > n1:
                continue
            run_case({"kind": "crash", "tier": tier, "init": init, "subjects": list(subj), "exit1": ex1, "k1": k1 if k1 < n1 else None}, acc)
    elif block[0] == "crash3":
        run_case({"kind": "crash3", "init": block[1], "k1": block[2], "subjects": ["s1", "s3"]}, acc)
    elif block[0] == "hist":
        run_case({"kind": "hist", "tier": block[1], "scheme": block[2]}, acc)
    else:
        run_case({"kind": "envconf"}, acc)


def judge_final(acc, case, tag, subjects, evaluated_before, sig="C17"):
    """after the final complete session"""
    ref = reference(subjects)
    text = vfs.fs.files.get(OUT)
    if text is None:
        acc.violation(f"{sig}:output_missing", case, f"{tag}: the output file does not exist after the final session")
        return False
    rows = agg.parse_tsv(text)
    ok = True
    nhead = sum(1 for r in rows if r == ref["header"])
    if not rows or rows[0] != ref["header"] or nhead != 1:
        kind = "header_missing" if nhead == 0 else "header_repeated" if nhead > 1 else "header_not_first"
        acc.violation(f"{sig}:{kind}", case, f"{tag}: the header occurs {nhead} times / first line is {rows[0][:3] if rows else None}; file:\n{text[:300]}")
        ok = False
    inv = {v: k for k, v in NAME.items()}
    body = [r for r in rows if r != ref["header"]]
    names = [inv.get(r[0], r[0]) for r in body]
    if sorted(names) != sorted(subjects):
        dup = sorted({n for n in names if names.count(n) > 1})
        miss = sorted(set(subjects) - set(names))
        kind = "duplicate_row" if dup else "missing_row" if miss else "unexpected_row"
        acc.violation(f"{sig}:{kind}", case, f"{tag}: rows for {names}, expected exactly one per subject of {list(subjects)}")
        ok = False
    for r in body:
        k = inv.get(r[0], r[0])
        if k in ref["rows"] and r != ref["rows"][k]:
            acc.violation(f"{sig}:row_differs", case, f"{tag}: row of {r[0]!r} is {r[1:6]}..., an uninterrupted run writes {ref['rows'][k][1:6]}...")
            ok = False
    return ok


def run_case(case, acc):
    kind = case["kind"]
    if kind == "hist":
        return _hist(case, acc)
    if kind == "envconf":
        return _envconf(case, acc)
    if kind == "crash3":
        return _crash3(case, acc)
    init, subjects, ex1, k1 = case["init"], case["subjects"], case["exit1"], case["k1"]
    # session 2 crash points depend on the state left by session 1: enumerate by running it once uncrashed
    k2s = [case["k2"]] if "k2" in case else None
    ex2s = [case["exit2"]] if "exit2" in case else (False, True)
    for ex2 in ex2s:
        vfs.reset(initial_files(init, subjects), dirs=["/vfs/d"])
        del LAST_ERROR[:]
        session(subjects, k1, ex1)
        after1 = (dict(vfs.fs.files), set(vfs.fs.dirs))
        n2 = session(subjects, None, ex2)
        if LAST_ERROR:
            e = LAST_ERROR[0]
            acc.case("crash", init, tuple(subjects), ex1, k1, ex2, "probe")
            acc.violation(f"C17:session_raised:{type(e).__name__}:{init}", {**case, "exit2": ex2, "k2": None}, f"init={init} session1 killed before op {k1} (exit handlers: {ex1}): session 1 or the following complete session raised {e!r}; output file now:\n{vfs.fs.files.get(OUT, '<absent>')[:200]}")
            continue
        for k2 in (k2s if k2s is not None else list(range(n2)) + [None]):
            acc.case("crash", init, tuple(subjects), ex1, k1, ex2, k2)
            c2 = {**case, "exit2": ex2, "k2": k2}
            tag = f"init={init} session1 killed before op {k1} (exit handlers: {ex1}), session2 killed before op {k2} (exit handlers: {ex2}), final session resubmits {subjects}"
            vfs.reset(after1[0], dirs=sorted(after1[1]))
            acc.step(3)
            del LAST_ERROR[:]
            session(subjects, k2, ex2)
            before = agg.parse_tsv(vfs.fs.files.get(OUT, ""))
            ref = reference(subjects)
            finished = {{v: k for k, v in NAME.items()}.get(r[0], r[0]) for r in before if r != ref["header"] and len(r) == len(ref["header"])}
            CountingEvaluator.calls = []
            # the final session resubmits in the original or (for odd crash-point sums) the reversed order
            final_order = list(reversed(subjects)) if ((k1 or 0) + (k2 or 0)) % 2 else list(subjects)
            session(final_order, None, True)
            if LAST_ERROR:
                e = LAST_ERROR[0]
                acc.violation(f"C17:session_raised:{type(e).__name__}:{init}", c2, f"{tag}: a session raised {e!r}; output file now:\n{vfs.fs.files.get(OUT, '<absent>')[:200]}")
                continue
            acc.state(vfs.fs.snapshot())
            if (k1 is not None and k1 > 2) or (k2 is not None and k2 > 2):
                acc.nontriv(init, ex1, k1, ex2, k2)
            acc.outcome(vfs.fs.files.get(OUT, "")[:0], len(CountingEvaluator.calls))
            ok = judge_final(acc, c2, tag, subjects, finished)
            # finished subjects are skipped, unfinished ones are evaluated again (exactly once)
            evaluated = [s for s in subjects if DATA[s][0].tobytes() + DATA[s][1].tobytes() in CountingEvaluator.calls]
            nev = {s: CountingEvaluator.calls.count(DATA[s][0].tobytes() + DATA[s][1].tobytes()) for s in subjects}
            for s in subjects:
                if s in finished and nev[s] > 0:
                    acc.violation("C17:finished_subject_reevaluated", c2, f"{tag}: subject {s} already had a complete row but was evaluated again")
                    ok = False
                if s not in finished and nev[s] != 1:
                    acc.violation("C17:unfinished_subject_not_evaluated_once", c2, f"{tag}: subject {s} had no complete row and was evaluated {nev[s]} times in the final session")
                    ok = False
            if acc.evaluations % 1499 == 1:
                acc.sample({"initial_output_file": init, "session1_killed_before_op": k1, "session1_exit_handlers": ex1, "session2_killed_before_op": k2, "session2_exit_handlers": ex2, "subjects": subjects})
            if ok:
                acc.ok()


# ------------------------------------------------------------------------------------------------ histories (siblings)
SCHEMES = {
    "plain": {"A": "/vfs/d/x.tsv", "B": "/vfs/d/y.tsv", "C": "/vfs/e/x.tsv"},
    "dotted": {"A": "/vfs/d/study.fold1.tsv", "B": "/vfs/d/study.fold2.tsv", "C": "/vfs/e/study.fold1.tsv"},
    "prefix": {"A": "/vfs/d/model.tsv", "B": "/vfs/d/model.v1.0.tsv", "C": "/vfs/d/model_2.tsv"},
}
FILES = dict(SCHEMES["plain"])


def _ops():
    ops = [("new", "A"), ("new", "B"), ("new", "C"), ("restart", "A")]
    for x in "ABC":
        for s in ("s1", "s3"):
            ops.append(("eval", x, s))
        ops.append(("exit", x))
    return ops


def _replay_history(hist):
    """returns (live dict name->aggregator, submitted dict file->set(subjects), error or None)"""
    from panoptica import Panoptica_Aggregator

    vfs.reset(dirs=["/vfs/d", "/vfs/e"])
    sched.reset_locks()
    sched.restore_image(PRISTINE_IMAGE)
    agg.drop_exit_handlers()
    live, submitted, handlers = {}, {f: [] for f in FILES.values()}, {}
    for op in hist:
        if op[0] in ("new", "restart"):
            x = op[1]
            n0 = len(seams.atexit_callbacks)
            live[x] = Panoptica_Aggregator(_make_ev(), FILES[x])
            handlers[x] = seams.atexit_callbacks[n0:]
        elif op[0] == "eval":
            _, x, s = op
            live[x].evaluate(DATA[s][0].copy(), DATA[s][1].copy(), NAME[s])
            if NAME[s] not in submitted[FILES[x]]:
                submitted[FILES[x]].append(NAME[s])
        elif op[0] == "exit":
            x = op[1]
            for f, a, k in handlers.get(x, []):
                f(*a, **k)
            handlers[x] = []
            del live[x]
    return live, submitted


def _enabled(hist):
    live = set()
    created = set()
    for op in hist:
        if op[0] in ("new", "restart"):
            live.add(op[1])
            created.add(op[1])
        elif op[0] == "exit":
            live.discard(op[1])
    out = []
    for op in _ops():
        if op[0] == "new" and op[1] not in live and op[1] not in created:
            out.append(op)
        elif op[0] == "restart" and "A" in live:
            out.append(op)
        elif op[0] == "eval" and op[1] in live:
            out.append(op)
        elif op[0] == "exit" and op[1] in live:
            out.append(op)
    return out


def _hist(case, acc):
    from collections import deque

    acc.case("hist", case["tier"], case.get("scheme", "plain"))
    FILES.clear()
    FILES.update(SCHEMES[case.get("scheme", "plain")])
    depth = 6 if case["tier"] == "quick" else 8
    if "history" in case:
        return _judge_history(acc, case, [tuple(o) for o in case["history"]])
    seen = set()
    frontier = deque([[]])
    nstates = ntrans = 0
    while frontier:
        hist = frontier.popleft()
        for op in _enabled(hist):
            h2 = hist + [op]
            ntrans += 1
            acc.step()
            key = _judge_history(acc, case, h2)
            if key is None or key in seen:
                continue
            seen.add(key)
            nstates += 1
            acc.state("hist", key)
            if len(h2) < depth:
                frontier.append(h2)
    acc.count("history_states", nstates)
    acc.count("history_transitions", ntrans)
    acc.sample({"history_bfs": {"files": dict(FILES), "depth": depth, "states": nstates, "transitions": ntrans, "operations": [list(o) for o in _ops()]}})


def _judge_history(acc, case, hist):
    c2 = {"kind": "hist", "tier": case["tier"], "scheme": case.get("scheme", "plain"), "history": [list(o) for o in hist]}
    tag = f"history {hist}"
    try:
        live, submitted = _replay_history(hist)
    except Exception as e:
        names = {o[1] for o in hist if o[0] in ("new", "restart")}
        sig = "sibling" if len({os.path.dirname(FILES[n]) for n in names}) < len(names) and len(names) > 1 else "single"
        acc.violation(f"C17:history_raised:{type(e).__name__}:{sig}", c2, f"{tag}: raised {e!r}")
        agg.drop_exit_handlers()
        return None
    ok = True
    if len(live) >= 2:
        acc.nontriv("hist", tuple(hist))
    for f, subs in submitted.items():
        text = vfs.fs.files.get(f)
        if text is None:
            if subs:
                acc.violation("C17:history_output_missing", c2, f"{tag}: {f} does not exist")
                ok = False
            continue
        rows = agg.parse_tsv(text)
        names = [r[0] for r in rows[1:]]
        if not rows or rows[0][0] != "subject_name":
            acc.violation("C17:history_header", c2, f"{tag}: {f} has no header: {text[:100]!r}")
            ok = False
        if sorted(names) != sorted(subs):
            other = [g for g in FILES.values() if g != f and os.path.dirname(g) == os.path.dirname(f) and any(o[0] in ("new", "restart") and FILES[o[1]] == g for o in hist)]
            sig = "suppressed_by_sibling" if other and set(names) < set(subs) else "rows"
            acc.violation(f"C17:history_{sig}", c2, f"{tag}: {f} has rows for {names}, subjects submitted to it: {subs}")
            ok = False
    if ok:
        acc.ok()
    agg.drop_exit_handlers()
    live_key = tuple(sorted((x, repr(sorted((k, repr(v)) for k, v in vars(a).items() if "evaluator" not in k))) for x, a in live.items()))
    created = tuple(sorted({o[1] for o in hist if o[0] in ("new", "restart")}))
    return (vfs.fs.snapshot(), live_key, created, tuple(sorted((f, tuple(s)) for f, s in submitted.items())))


# ------------------------------------------------------------------------------------------------ conformance of the VFS
def _envconf(case, acc):
    """every sequential history of length <= 3 over {new, eval s1, eval s2, exit} on one output file, from every initial
    state, on a real temporary directory and on the in-memory file system: identical final bytes of every file"""
    from panoptica import Panoptica_Aggregator

    acc.case("envconf")
    ops = ("new", "s1", "s2", "exit")
    n = 0
    for init in INITS:
        for L in (1, 2, 3):
            for hist in itertools.product(ops, repeat=L):
                if hist[0] != "new":
                    continue
                res = []
                for fsname in ("vfs", "real"):
                    d = "/vfs/d" if fsname == "vfs" else tempfile.mkdtemp(prefix="pmc_c17_")
                    try:
                        files0 = {p.replace("/vfs/d", d): c for p, c in initial_files(init, ["s1", "s2"]).items()}
                        if fsname == "vfs":
                            vfs.reset(files0, dirs=[d])
                        else:
                            for p, c in files0.items():
                                with seams.real_open(p, "w", newline="") as f:
                                    f.write(c)
                        sched.reset_locks()
                        agg.drop_exit_handlers()
                        A = None
                        err = None
                        try:
                            for op in hist:
                                if op == "new":
                                    A = Panoptica_Aggregator(_make_ev(), os.path.join(d, "out.tsv"))
                                elif op == "exit":
                                    agg.run_exit_handlers()
                                else:
                                    A.evaluate(DATA[op][0].copy(), DATA[op][1].copy(), op)
                        except Exception as e:  # must then fail identically on both
                            err = type(e).__name__
                        agg.drop_exit_handlers()
                        # objects of this run die here, inside the run (finalizers, if any, must not fire during a later one)
                        A = None
                        import gc

                        gc.collect()
                        if fsname == "vfs":
                            content = {os.path.basename(p): c for p, c in vfs.fs.files.items()}
                        else:
                            content = {}
                            for fn in sorted(os.listdir(d)):
                                with seams.real_open(os.path.join(d, fn), newline="") as f:
                                    content[fn] = f.read()
                        res.append((content, err))
                    finally:
                        if fsname == "real":
                            shutil.rmtree(d, ignore_errors=True)
                n += 1
                acc.step(2)
                acc.state("envconf", init, hist)
                if res[0] != res[1]:
                    raise RuntimeError(f"in-memory file system does not conform to the real one on init={init} history={hist}: vfs={res[0]} real={res[1]}")
    acc.count("envconf_histories", n)
    acc.ok()


def _crash3(case, acc):
    """three sessions killed one after the other (every combination of crash points), then the final complete session"""
    init, subjects, k1 = case["init"], case["subjects"], case["k1"]
    vfs.reset(initial_files(init, subjects), dirs=["/vfs/d"])
    del LAST_ERROR[:]
    n1 = session(subjects, None, False)
    if k1 >= n1 or LAST_ERROR:
        return
    vfs.reset(initial_files(init, subjects), dirs=["/vfs/d"])
    session(subjects, k1, False)
    after1 = (dict(vfs.fs.files), sorted(vfs.fs.dirs))
    n2 = session(subjects, None, False)
    k2s = [case["k2"]] if "k2" in case else range(n2)
    for k2 in k2s:
        vfs.reset(after1[0], dirs=after1[1])
        session(subjects, k2, False)
        after2 = (dict(vfs.fs.files), sorted(vfs.fs.dirs))
        n3 = session(subjects, None, False)
        for k3 in ([case["k3"]] if "k3" in case else range(n3)):
            acc.case("crash3", init, k1, k2, k3)
            c2 = {**case, "k2": k2, "k3": k3}
            tag = f"init={init} three sessions killed before ops {k1}, {k2}, {k3}; final session resubmits {subjects}"
            vfs.reset(after2[0], dirs=after2[1])
            acc.step(2)
            del LAST_ERROR[:]
            session(subjects, k3, False)
            ref = reference(subjects)
            before = agg.parse_tsv(vfs.fs.files.get(OUT, ""))
            finished = {{v: k for k, v in NAME.items()}.get(r[0], r[0]) for r in before if r != ref["header"] and len(r) == len(ref["header"])}
            CountingEvaluator.calls = []
            session(list(reversed(subjects)) if (k1 + k2 + k3) % 2 else subjects, None, True)
            if LAST_ERROR:
                acc.violation(f"C17:session_raised:{type(LAST_ERROR[0]).__name__}:{init}", c2, f"{tag}: a session raised {LAST_ERROR[0]!r}")
                continue
            acc.state(vfs.fs.snapshot())
            acc.nontriv("crash3", init, k1, k2, k3)
            ok = judge_final(acc, c2, tag, subjects, finished)
            nev = {s_: CountingEvaluator.calls.count(DATA[s_][0].tobytes() + DATA[s_][1].tobytes()) for s_ in subjects}
            for s_ in subjects:
                if s_ in finished and nev[s_] > 0:
                    acc.violation("C17:finished_subject_reevaluated", c2, f"{tag}: subject {s_} already had a complete row but was evaluated again")
                    ok = False
                if s_ not in finished and nev[s_] != 1:
                    acc.violation("C17:unfinished_subject_not_evaluated_once", c2, f"{tag}: subject {s_} had no complete row and was evaluated {nev[s_]} times in the final session")
                    ok = False
            if ok:
                acc.ok()
