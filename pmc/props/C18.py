"""C18 - what the aggregator writes is what the statistics loader reads.

Configuration x history enumeration on the in-memory file system: every evaluator configuration of the stated product
(metric selections, group sets with awkward names, handlers, log_times) x subject-name sequences goes through a real
Panoptica_Aggregator session; the file is read back with Panoptica_Statistic.from_file and make_statistic(); every value a
result reports must come back bit-identical under the same subject / group / metric, non-finite and uncomputable
values as missing.
"""
from __future__ import annotations

import itertools
import math
import struct

import numpy as np

from .. import agg, seams, vfs
from .. import scopes as sc
from ..lib import make_evaluator

ID = "C18"
LEVEL = "model_checking"
RULE = (
    "factored: ALL configurations = instance-metric subsets (15) x global-metric subsets (8) x 12 group sets (names incl. '-', 'a-b-c', 'x-y', space, tab, upper case, 'ü', a metric-like name; kinds plain/merge/single) x "
    "handler in {default, all-NaN, all-INF, all-NONE, asymmetric} x log_times {F,T} (14400; every third configuration additionally with the evaluator recording group times) x 3 subject sequences; and 24 configurations x ALL subject sequences of length <= 2 (thorough <= 3) over "
    "{'s1','a b','x<TAB>y','-','','1e5','nan','ü','q\"r'} (+ 'subject_name' thorough). Inputs cycle over tp>0 (1/3-type floats), empty prediction, a 10 001-voxel instance off by one voxel (values such as 9.999e-05 that are written in exponent notation), no instances, disjoint, prediction present for some groups only. "
    "non-trivial = >= 2 groups or a name containing '-', tab, quote or nothing; distinct by (configuration, sequence)"
)
ASSUMPTIONS = [
    "group-name sets that collide after the library's documented lower-casing are not generated",
    "computation_time (log_times) is wall-clock: only its column position is checked, not its value",
    "the reported values are obtained by calling evaluate() on the same evaluator with the same arrays (purity is C15's business)",
]
BUDGET = {"quick": 240, "thorough": 2400}

IM_ALL = ("DSC", "IOU", "ASSD", "RVD")
IM_SUBSETS = [c for r in range(1, 5) for c in itertools.combinations(IM_ALL, r)]
GM_SUBSETS = [c for r in range(0, 4) for c in itertools.combinations(("DSC", "IOU", "RVD"), r)]
GROUPSETS = [
    None,
    [("a", [1, 2, 3], "plain")],
    [("A b", [1], "plain"), ("x_y", [2, 3], "plain")],
    [("x-y", [1, 2], "plain"), ("z", [3], "plain")],
    [("-", [1], "plain"), ("a-b-c", [2, 3], "merge")],
    [("tab\there", [1, 2, 3], "plain")],
    [("ü", [1], "plain"), ("B", [2], "merge"), ("c", [3], "single")],
    [("g1", [1], "plain"), ("g2", [2], "plain"), ("g3", [3], "plain")],
    [("Solo", [1], "single"), ("rest", [2, 3], "plain")],
    [("sq", [1, 2, 3], "plain")],
    [("a", [1, 2, 3], "merge")],
    [("ungrouped", [1], "plain"), ("other", [2, 3], "plain")],
]
H_NAMES = ("default", "nan", "inf", "none", "asym")
SUBJ = ["s1", "a b", "x\ty", "-", "", "1e5", "nan", "ü", 'q"r', "subject_name"]
SEQ3 = [["s1", "s2"], ["a b", "x\ty"], ["-", "", "1e5"]]
INPUT_CYCLE = ("tp", "empty_pred", "tiny_rvd", "none", "miss", "partial")


def handler_cfg(name):
    if name == "default":
        return None
    if name == "asym":
        return {"std": "ZERO", "metrics": {"DSC": ["NAN", "ZERO", "ONE", "INF"], "IOU": ["INF", "ONE", "ZERO", "NAN"], "ASSD": ["ZERO", "INF", "NAN", "ONE"], "RVD": ["ONE", "NAN", "INF", "NONE"], "clDSC": ["NONE", "ZERO", "ONE", "NAN"]}}
    v = {"nan": "NAN", "inf": "INF", "none": "NONE"}[name]
    return {"std": v, "metrics": {m: [v] * 4 for m in ("DSC", "IOU", "ASSD", "RVD", "clDSC")}}


def n_cfg():
    return len(IM_SUBSETS) * len(GM_SUBSETS) * len(GROUPSETS) * len(H_NAMES) * 2


def decode(i):
    dims = (len(IM_SUBSETS), len(GM_SUBSETS), len(GROUPSETS), len(H_NAMES), 2)
    out = []
    for d in dims:
        out.append(i % d)
        i //= d
    return out


def blocks(tier):
    B = []
    for lo, hi in sc.ranges(n_cfg(), 60):
        B.append(("all", lo, hi))
    # 24 configurations spread over the product x all subject sequences
    step = n_cfg() // 24
    names = SUBJ + (["subject_name"] if tier == "thorough" else [])
    for q in range(24):
        B.append(("seq", tier, q * step + q % 7))
    return B


def run_block(block, acc):
    if block[0] == "all":
        _, lo, hi = block
        for i in range(lo, hi):
            for s in range(len(SEQ3)):
                run_case({"kind": "all", "cfg": i, "seq": SEQ3[s]}, acc)
    else:
        _, tier, i = block
        names = SUBJ + (["subject_name"] if tier == "thorough" else [])
        for L in range(1, 3 if tier == "quick" else 4):
            for seq in itertools.product(names, repeat=L):
                run_case({"kind": "seq", "cfg": i, "seq": list(seq)}, acc)


def make_groups(gs):
    from panoptica.utils.label_group import LabelGroup, LabelMergeGroup
    from panoptica.utils.segmentation_class import SegmentationClassGroups

    if gs is None:
        return None
    d = {}
    for name, labels, kind in gs:
        d[name] = LabelGroup(labels) if kind == "plain" else LabelMergeGroup(labels) if kind == "merge" else LabelGroup(labels, single_instance=True)
    return SegmentationClassGroups(d)


def bits(x):
    return struct.pack("<d", float(x))


def expected_cell(v):
    """what the loader must report for a value v reported by a result"""
    if v is None:
        return None
    if isinstance(v, (bool, np.bool_)):
        return float(v)
    if isinstance(v, (int, float, np.integer, np.floating)):
        f = float(v)
        return f if math.isfinite(f) else None
    return "UNCOMPARABLE"


def run_case(case, acc):
    from panoptica import Panoptica_Aggregator, Panoptica_Statistic

    im, gm, gs, hn, lt = decode(case["cfg"])
    seq = case["seq"]
    acc.case(case["kind"], case["cfg"], tuple(seq))
    desc = {"instance_metrics": IM_SUBSETS[im], "global_metrics": GM_SUBSETS[gm], "groups": GROUPSETS[gs], "handler": H_NAMES[hn], "log_times": bool(lt)}
    tag = f"{desc} subjects={seq!r}"
    vfs.reset(dirs=["/vfs/d"])
    agg.fresh_locks()
    agg.drop_exit_handlers()
    acc.step(2 + 2 * len(seq))
    # NOTE: module-level state of the library is deliberately NOT reset between sessions here: configurations follow each other
    # in one process, as in a script that evaluates several set-ups (a cache keyed too coarsely shows up that way)
    try:
        ev = make_evaluator("UNMATCHED", matcher=["thr", "IOU", 0.5, False], instance_metrics=IM_SUBSETS[im], global_metrics=GM_SUBSETS[gm], handler=handler_cfg(H_NAMES[hn]), groups=make_groups(GROUPSETS[gs]))
        if case["cfg"] % 3 == 0:
            # the evaluator records computation times (independently of the aggregator's log_times): with log_times the cells are
            # filled, without it the value exists in the result but has no column - nothing may shift either way
            ev.set_log_group_times(True)
        A = Panoptica_Aggregator(ev, "/vfs/d/out.tsv", log_times=bool(lt))
        expected = {}
        order = []
        for k, s in enumerate(seq):
            p, r = agg.INPUTS[INPUT_CYCLE[k % len(INPUT_CYCLE)]]
            A.evaluate(p.copy(), r.copy(), s)
            if s not in expected:
                res = ev.evaluate(p.copy(), r.copy(), verbose=False)
                expected[s] = {g: v[0].to_dict() for g, v in res.items()}
                order.append(s)
        gnames = list(ev.segmentation_class_groups_names)
    except Exception as e:
        acc.violation(f"C18:session_raised:{type(e).__name__}", case, f"{tag}: aggregator session raised {e!r}")
        agg.drop_exit_handlers()
        return
    text = vfs.fs.files.get("/vfs/d/out.tsv", "")
    acc.state("file", text.replace(text[text.find("\n"):], "") if False else hash(text) & 0xFFFFFFFF, case["cfg"], tuple(seq))
    nontriv = len(gnames) >= 2 or any(("-" in n or "\t" in n or '"' in n) for n in gnames + list(seq)) or "" in seq
    if nontriv:
        acc.nontriv(case["cfg"], tuple(seq))
    if acc.evaluations % 2999 == 1:
        acc.sample({"configuration": desc, "subjects": seq, "file": text[:600]})
    rows = agg.parse_tsv(text)
    ok = True
    if not rows or any(len(r) != len(rows[0]) for r in rows):
        acc.violation("C18:ragged_file", case, f"{tag}: header has {len(rows[0]) if rows else 0} cells, rows have {[len(r) for r in rows[1:]]}")
        ok = False
    stats = []
    for how, fn in (("from_file", lambda: Panoptica_Statistic.from_file("/vfs/d/out.tsv")), ("make_statistic", lambda: A.make_statistic())):
        try:
            stats.append((how, fn()))
        except Exception as e:
            names = [n for n in gnames if "-" in n]
            sig = "dash_in_group_name" if names else type(e).__name__
            acc.violation(f"C18:{how}_raised:{sig}", case, f"{tag}: {how} raised {e!r} on the file the aggregator wrote:\n{text[:400]}")
            ok = False
    for how, st in stats:
        if list(st.subjectnames) != order:
            miss = [s for s in order if s not in st.subjectnames]
            acc.violation(f"C18:{how}:subjects:{'header_name' if 'subject_name' in miss else 'order'}", case, f"{tag}: statistics lists subjects {st.subjectnames!r}, the aggregator recorded {order!r}")
            ok = False
            continue
        if sorted(st.groupnames) != sorted(gnames):
            acc.violation(f"C18:{how}:groups", case, f"{tag}: statistics has groups {sorted(st.groupnames)!r}, the evaluator names them {sorted(gnames)!r}")
            ok = False
            continue
        for s in order:
            try:
                one = st.get_one_subject(s)
            except Exception as e:
                acc.violation(f"C18:{how}:get_one_subject_raised", case, f"{tag}: get_one_subject({s!r}) raised {e!r}")
                ok = False
                continue
            for g in gnames:
                for m, v in expected[s][g].items():
                    exp = expected_cell(v)
                    if exp == "UNCOMPARABLE":
                        continue
                    if m not in one[g]:
                        acc.violation(f"C18:{how}:metric_missing", case, f"{tag}: metric {m} of group {g!r} is reported by the result but absent from the statistics ({sorted(one[g])})")
                        ok = False
                        continue
                    got = one[g][m]
                    same = (got is None and exp is None) or (got is not None and exp is not None and bits(got) == bits(exp))
                    if not same:
                        acc.violation(f"C18:{how}:value", case, f"{tag}: subject {s!r} group {g!r} metric {m}: result reports {v!r}, statistics returns {got!r}")
                        ok = False
                # columns of metrics the result does not report must be missing, not shifted values
                for m in one[g]:
                    if m not in expected[s][g] and m != "computation_time" and one[g][m] is not None:
                        acc.violation(f"C18:{how}:phantom_value", case, f"{tag}: subject {s!r} group {g!r}: statistics has {m}={one[g][m]!r} but the result does not report {m}")
                        ok = False
            # alignment of get() with subjectnames
        for g in gnames:
            for m in st.metricnames:
                col = st.get(g, m)
                if len(col) != len(order):
                    acc.violation(f"C18:{how}:column_length", case, f"{tag}: column ({g},{m}) has {len(col)} entries for {len(order)} subjects")
                    ok = False
    acc.outcome(len(rows), len(rows[0]) if rows else 0)
    agg.drop_exit_handlers()
    if ok:
        acc.ok()
