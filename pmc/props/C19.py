"""C19 - saving and loading a configuration reproduces the same evaluator.

The full product of configuration options is enumerated: each configuration is saved to YAML (in-memory file system),
loaded, compared structurally by recursive introspection, saved again (byte identity); behavioural equality on probe inputs
for a covering sub-product; every component on its own (all 625 zero-TP handlings, every enum member, matchers,
approximators, groups); shipped configurations load (by path and by name, repeatedly, unaffected by earlier mutation).
"""
from __future__ import annotations

import itertools
import math
import os
from enum import Enum

import numpy as np

from .. import scopes as sc
from .. import seams, vfs
from ..lib import ECR, ECR_NAMES, EdgeCaseHandler, Metric, MetricZeroTPEdgeCaseHandling, make_approximator, make_handler, make_matcher, observe, same_obs

ID = "C19"
LEVEL = "model_checking"
RULE = (
    "full product expected_input(3) x approximator{None,default,cc3d,scipy} x matcher{None, thr IoU .5, thr Dice .3 many-to-one, thr ASSD 1.0, merge IoU .5, merge Dice .7, merge ASSD 2.0} x handler{None, asymmetric A, asymmetric B with "
    "empty_list_std ZERO, default tables with empty_list_std ONE} x groups{None, plain, plain+merge, plain+single, a group literally named 'Ungrouped' + a merge group} x instance metrics(3) x global metrics(3) x decision{none, IoU .5, Dice 1/3} x flags (quick: 2 joint settings, thorough: 2^3): "
    "save -> load -> structural equality -> save again (byte identity); behavioural equality on 6 probe inputs for the sub-product with default metric lists and flags; components alone: 625 MetricZeroTPEdgeCaseHandling, "
    "5x4 handlers, matchers, approximators, LabelGroup/LabelMergeGroup/SegmentationClassGroups variants, every enum member; shipped configs by path, by name, twice, after mutating the first loaded object; 46 group names that YAML 1.1/1.2 would read as non-strings or that need quoting (n, y, no, on, off, yes, null, true, ~, 1, 1.5, 0x1f, 1e3, .inf, dates, flow/anchor/tag indicators, leading/trailing blanks, empty, tab, newline) alone and nested in an UNMATCHED / MATCHED evaluator; "
    "48 spread configurations x 4 setter variants (set_log_group_times, _set_instance_matcher, _set_instance_approximator, all): re-configured after construction, saved, loaded, compared (settings, bytes, behaviour), then the loaded object re-configured and saved again. "
    "non-trivial = at least two fields differ from their defaults; distinct by configuration"
)
ASSUMPTIONS = ["ruamel.yaml is trusted to write/read what it is given", "structural equality ignores caches (cached metric keys)", "sensitivity of every option field is verified on the probes in each run (otherwise the run reports itself vacuous)"]
BUDGET = {"quick": 240, "thorough": 2400}

ITYPES = ("SEMANTIC", "UNMATCHED", "MATCHED")
APPROX = ("none", "default", "cc3d", "scipy")
MATCHERS = (None, ["thr", "IOU", 0.5, False], ["thr", "DSC", 0.3, True], ["thr", "ASSD", 1.0, False], ["merge", "IOU", 0.5], ["merge", "DSC", 0.7], ["merge", "ASSD", 2.0])
H_A = {"std": "NAN", "metrics": {"DSC": ["NAN", "ZERO", "ONE", "INF"], "IOU": ["INF", "ONE", "ZERO", "NAN"], "ASSD": ["ZERO", "INF", "NAN", "ONE"], "RVD": ["ONE", "NAN", "INF", "ZERO"], "clDSC": ["NONE", "ZERO", "ONE", "NAN"]}}
H_B = {"std": "ZERO", "metrics": {"DSC": ["ONE", "INF", "ZERO", "ONE"], "IOU": ["ZERO", "NAN", "ONE", "INF"], "ASSD": ["NAN", "ONE", "INF", "ZERO"], "RVD": ["INF", "ZERO", "NAN", "NONE"], "clDSC": ["ZERO", "ONE", "NAN", "INF"]}}
HANDLERS = (None, H_A, H_B, "DEFAULT_STD_ONE")
GROUPS = (None, "plain", "plain+merge", "plain+single", "named-like-placeholder")
IMETS = (("DSC", "IOU", "ASSD", "RVD"), ("DSC", "IOU"), ("IOU", "ASSD", "clDSC"))
GMETS = (("DSC",), ("DSC", "IOU", "RVD"), ())
DECS = (None, ["IOU", 0.5], ["DSC", 1.0 / 3.0])
FLAGS_Q = ((False, False, False), (True, True, True))
FLAGS_T = tuple(itertools.product((False, True), repeat=3))
DIMS = lambda tier: (len(ITYPES), len(APPROX), len(MATCHERS), len(HANDLERS), len(GROUPS), len(IMETS), len(GMETS), len(DECS), len(FLAGS_Q if tier == "quick" else FLAGS_T))


# group names that YAML (1.1 or 1.2) would read as something other than a string if written plainly, or that need quoting
NAMES = ["n", "y", "no", "on", "off", "yes", "null", "true", "false", "~", "1", "1.5", "0x1f", "1e3", "0o17", "1_000", ".inf", ".nan", "2024-01-01", "a: b", "a #b", "-x", "*a", "&a", "!t", "%p", "@q", "`r",
         "'q'", '"dq"', " lead", "trail ", "", "a,b", "[x]", "{x}", "|", ">", "?", "=", "<<", "\u00e9", "t\tb", "a\nb", "t", "m"]
N_SETTER_BASES = 48


def n_configs(tier):
    return math.prod(DIMS(tier))


def blocks(tier):
    B = []
    for lo, hi in sc.ranges(n_configs(tier), 400):
        B.append(("cfg", tier, lo, hi))
    for lo, hi in sc.ranges(625, 125):
        B.append(("zerotp", lo, hi))
    B.append(("components",))
    for lo, hi in sc.ranges(len(NAMES), 6):
        B.append(("names", lo, hi))
    for lo, hi in sc.ranges(N_SETTER_BASES, 4):
        B.append(("setters", tier, lo, hi))
    B.append(("shipped",))
    B.append(("sens",))
    return B


def run_block(block, acc):
    kind = block[0]
    if kind == "cfg":
        _, tier, lo, hi = block
        for i in range(lo, hi):
            run_case({"kind": "cfg", "tier": tier, "i": i}, acc)
    elif kind == "zerotp":
        for i in range(block[1], block[2]):
            run_case({"kind": "zerotp", "i": i}, acc)
    elif kind == "names":
        for i in range(block[1], block[2]):
            run_case({"kind": "names", "i": i}, acc)
    elif kind == "setters":
        for i in range(block[2], block[3]):
            for v in range(4):
                run_case({"kind": "setters", "tier": block[1], "b": i, "v": v}, acc)
    else:
        run_case({"kind": kind}, acc)


def decode(tier, i):
    dims = DIMS(tier)
    idx = []
    for d in dims:
        idx.append(i % d)
        i //= d
    return idx


def make_groups(kind):
    from panoptica.utils.label_group import LabelGroup, LabelMergeGroup
    from panoptica.utils.segmentation_class import SegmentationClassGroups

    if kind is None:
        return None
    if kind == "plain":
        return SegmentationClassGroups({"all": LabelGroup([1, 2, 3])})
    if kind == "plain+merge":
        return SegmentationClassGroups({"one": LabelGroup([1]), "rest": LabelMergeGroup([2, 3])})
    if kind == "plain+single":
        return SegmentationClassGroups({"a-b": LabelGroup([1, 2]), "Solo": LabelGroup([3], single_instance=True)})
    if kind == "named-like-placeholder":
        # a user group that happens to carry the name the library uses for "no groups"
        return SegmentationClassGroups({"Ungrouped": LabelGroup([1]), "tumor": LabelMergeGroup([2, 3])})
    raise ValueError(kind)


def make_h(h):
    if h == "DEFAULT_STD_ONE":
        return EdgeCaseHandler(empty_list_std=ECR["ONE"])
    return make_handler(h)


def build(tier, i):
    from panoptica import InputType, Panoptica_Evaluator

    it, ap, ma, ha, gr, im, gm, de, fl = decode(tier, i)
    flags = (FLAGS_Q if tier == "quick" else FLAGS_T)[fl]
    desc = dict(expected_input=ITYPES[it], approximator=APPROX[ap], matcher=MATCHERS[ma], handler=HANDLERS[ha] if isinstance(HANDLERS[ha], str) or HANDLERS[ha] is None else ("A" if HANDLERS[ha] is H_A else "B"),
                groups=GROUPS[gr], instance_metrics=IMETS[im], global_metrics=GMETS[gm], decision=DECS[de], flags=flags)
    from ..lib import ITYPE

    ev = Panoptica_Evaluator(
        expected_input=ITYPE[ITYPES[it]], instance_approximator=make_approximator(APPROX[ap]), instance_matcher=make_matcher(MATCHERS[ma]), edge_case_handler=make_h(HANDLERS[ha]),
        segmentation_class_groups=make_groups(GROUPS[gr]), instance_metrics=[Metric[m] for m in IMETS[im]], global_metrics=[Metric[m] for m in GMETS[gm]],
        decision_metric=None if DECS[de] is None else Metric[DECS[de][0]], decision_threshold=None if DECS[de] is None else DECS[de][1],
        save_group_times=flags[0], log_times=flags[1], verbose=flags[2],
    )
    ndiff = sum(1 for x in (it != 2, ap, ma, ha, gr, im, gm, de, fl) if x)
    return ev, desc, ndiff


SKIP_ATTR = ("__resulting_metric_keys", "_default_result")  # caches and constructor-only fallbacks (no influence after construction)


def struct(o, depth=0):
    """canonical, comparable description of an object graph (settings only)"""
    if depth > 12:
        return "DEPTH"
    if isinstance(o, Enum):
        return ("enum", type(o).__name__, o.name)
    if o is None or isinstance(o, (bool, int, str)):
        return o
    if isinstance(o, float):
        return "nan" if math.isnan(o) else o
    if isinstance(o, (list, tuple)):
        return [struct(x, depth + 1) for x in o]
    if isinstance(o, (set, frozenset)):
        return sorted(repr(struct(x, depth + 1)) for x in o)
    if isinstance(o, dict):
        return sorted(((repr(struct(k, depth + 1)), struct(v, depth + 1)) for k, v in o.items()), key=lambda t: t[0])
    if callable(o) and hasattr(o, "__name__"):
        return ("fn", o.__name__)
    if isinstance(o, np.generic):
        return struct(o.item(), depth + 1)
    if hasattr(o, "__dict__"):
        return (type(o).__name__, sorted((k, struct(v, depth + 1)) for k, v in vars(o).items() if not k.endswith(SKIP_ATTR)))
    return repr(o)


def roundtrip(obj, cls, path="/vfs/cfg/x.yaml"):
    """save -> load -> save; returns (loaded, text1, text2)"""
    vfs.reset(dirs=["/vfs/cfg"])
    obj.save_to_config(path)
    t1 = vfs.fs.files[path]
    loaded = cls.load_from_config(path)
    p2 = path.replace("x.yaml", "y.yaml")
    loaded.save_to_config(p2)
    t2 = vfs.fs.files[p2]
    return loaded, t1, t2


def _z(n, **runs):
    """1-D label map of length n from runs label=(start, stop)"""
    a = [0] * n
    for k, spans in runs.items():
        for lo, hi in spans:
            for i in range(lo, hi):
                a[i] = int(k[1:])
    return a


PROBES = {
    "SEMANTIC": [
        ([[1, 1, 0, 0], [0, 0, 2, 2], [3, 0, 0, 1]], [[1, 1, 1, 0], [0, 2, 2, 0], [3, 3, 0, 0]]),
        ([[0, 0, 0, 0], [0, 0, 0, 0], [0, 0, 0, 0]], [[1, 0, 0, 0], [0, 0, 2, 2], [0, 0, 0, 0]]),
        ([[1, 0, 2, 0], [0, 3, 0, 1], [1, 1, 0, 0]], [[1, 0, 2, 0], [0, 0, 0, 1], [0, 1, 1, 0]]),
        ([[[1, 0], [0, 0]], [[0, 0], [0, 1]]], [[[1, 0], [0, 0]], [[0, 0], [0, 0]]]),
        (_z(14, l1=[(0, 5)], l2=[(5, 8)]), _z(14, l1=[(0, 8)])),
    ],
    "UNMATCHED": [
        (_z(12, l1=[(0, 5)], l2=[(5, 8)]), _z(12, l1=[(0, 8)])),          # fragments: threshold vs merge
        (_z(12, l1=[(1, 4)]), _z(12, l1=[(0, 2)])),                        # IoU .25 / Dice .4 / ASSD .75
        (_z(12, l2=[(3, 6)]), _z(12, l3=[(0, 4)])),                        # IoU 1/6 / Dice .29 / ASSD 1.25
        (_z(12, l1=[(0, 1)]), _z(12, l1=[(0, 2)])),                        # IoU .5 / Dice .67
        (_z(12, l2=[(0, 2)]), _z(12, l1=[(8, 10)])),                       # disjoint: zero TP, NORMAL scenario
        (_z(12), _z(12, l1=[(0, 2)], l3=[(5, 6)])),                        # empty prediction
    ],
    "MATCHED": [
        (_z(20, l1=[(1, 4)], l2=[(8, 9)], l3=[(15, 18)]), _z(20, l1=[(0, 2)], l2=[(6, 12)], l3=[(15, 18)])),  # IoU .25/.167/1
        (_z(12, l1=[(0, 2)]), _z(12, l2=[(6, 8)])),
        (_z(12, l1=[(0, 3)], l3=[(5, 7)]), _z(12, l1=[(0, 1)], l3=[(5, 7)], l2=[(9, 11)])),
        (_z(12, l1=[(0, 3)]), _z(12)),
    ],
}


def behaviour(ev, itype):
    out = []
    for p, r in PROBES[itype]:
        P, R = np.array(p, dtype=np.uint8), np.array(r, dtype=np.uint8)
        try:
            res = ev.evaluate(P, R, verbose=False)
            out.append({g: observe(v[0]) for g, v in res.items()})
        except Exception as e:
            out.append(("EXC", type(e).__name__))
    return out


def same_behaviour(a, b):
    for x, y in zip(a, b):
        if isinstance(x, tuple) or isinstance(y, tuple):
            if x != y:
                return False
            continue
        if sorted(x) != sorted(y):
            return False
        for g in x:
            if same_obs(x[g], y[g]):
                return False
    return True


def run_case(case, acc):
    kind = case["kind"]
    if kind == "cfg":
        return _cfg(case, acc)
    if kind == "zerotp":
        return _zerotp(case, acc)
    if kind == "components":
        return _components(case, acc)
    if kind == "names":
        return _names(case, acc)
    if kind == "setters":
        return _setters(case, acc)
    if kind == "shipped":
        return _shipped(case, acc)
    if kind == "sens":
        return _sens(case, acc)


def _cfg(case, acc):
    from panoptica import Panoptica_Evaluator

    tier, i = case["tier"], case["i"]
    acc.case("cfg", tier, i)
    try:
        ev, desc, ndiff = build(tier, i)
    except Exception as e:
        acc.count("invalid_at_construction")
        return
    acc.step(3)
    try:
        loaded, t1, t2 = roundtrip(ev, Panoptica_Evaluator)
    except Exception as e:
        acc.violation(f"C19:roundtrip_raised:{type(e).__name__}", case, f"configuration {desc}: save/load raised {e!r}")
        return
    acc.state("cfg", t1)
    if ndiff >= 2:
        acc.nontriv("cfg", tier, i)
    if acc.evaluations % 3001 == 1:
        acc.sample({"configuration": desc, "yaml": t1})
    ok = True
    s0, s1 = struct(ev), struct(loaded)
    if s0 != s1:
        diff = _first_diff(s0, s1)
        acc.violation(f"C19:settings_differ:{diff[0]}", case, f"configuration {desc}: loaded evaluator differs from the original at {diff[1]}")
        ok = False
    if t1 != t2:
        acc.violation("C19:resave_differs", case, f"configuration {desc}: saving the loaded evaluator does not reproduce the file\n--- first\n{t1}\n--- second\n{t2}")
        ok = False
    acc.outcome(hash(t1) & 0xFFFF)
    # behavioural equality on the covering sub-product (default metric lists and flags)
    it, ap, ma, ha, gr, im, gm, de, fl = decode(tier, i)
    if im == 0 and gm == 0 and fl == 0:
        acc.step(2 * len(PROBES[ITYPES[it]]))
        b0, b1 = behaviour(ev, ITYPES[it]), behaviour(loaded, ITYPES[it])
        if not same_behaviour(b0, b1):
            acc.violation("C19:behaviour_differs", case, f"configuration {desc}: the loaded evaluator gives different results on the probe inputs")
            ok = False
        acc.count("behaviour_checked")
    if ok:
        acc.ok()


def _check_evaluator(acc, case, ev, itype, label):
    """save -> load -> settings, re-save and behaviour must agree with the live object `ev`"""
    from panoptica import Panoptica_Evaluator

    acc.step(3)
    try:
        loaded, t1, t2 = roundtrip(ev, Panoptica_Evaluator)
    except Exception as e:
        acc.violation(f"C19:roundtrip_raised:{type(e).__name__}", case, f"{label}: save/load raised {e!r}")
        return None
    acc.state("ev", label, t1)
    ok = True
    s0, s1 = struct(ev), struct(loaded)
    if s0 != s1:
        diff = _first_diff(s0, s1)
        acc.violation(f"C19:settings_differ:{diff[0]}", case, f"{label}: loaded evaluator differs from the saved one at {diff[1]}")
        ok = False
    if t1 != t2:
        acc.violation("C19:resave_differs", case, f"{label}: saving the loaded evaluator does not reproduce the file\n--- first\n{t1}\n--- second\n{t2}")
        ok = False
    acc.step(2 * len(PROBES[itype]))
    if not same_behaviour(behaviour(ev, itype), behaviour(loaded, itype)):
        acc.violation("C19:behaviour_differs", case, f"{label}: the loaded evaluator gives different results on the probe inputs than the evaluator that was saved")
        ok = False
    if ok:
        acc.ok()
    return loaded


def _names(case, acc):
    from panoptica import Panoptica_Evaluator
    from panoptica.utils.label_group import LabelGroup, LabelMergeGroup
    from panoptica.utils.segmentation_class import SegmentationClassGroups

    from ..lib import ITYPE

    name = NAMES[case["i"]]
    acc.case("names", case["i"])
    acc.nontriv("names", case["i"])

    def groups():
        return SegmentationClassGroups({name: LabelGroup([1]), "zz": LabelMergeGroup([2, 3])})

    try:
        g = groups()
    except Exception:
        acc.count("invalid_at_construction")
        return
    _component(acc, case, g, SegmentationClassGroups, f"SegmentationClassGroups with a group named {name!r}")
    # the group names must survive (as the keys of the result dict do)
    try:
        loaded, _, _ = roundtrip(groups(), SegmentationClassGroups)
        if list(loaded.keys()) != list(g.keys()):
            acc.violation("C19:group_names_differ", case, f"group names {list(g.keys())} come back as {list(loaded.keys())}")
    except Exception as e:
        acc.violation(f"C19:component_raised:SegmentationClassGroups", case, f"group named {name!r}: {e!r}")
    for itype in ("UNMATCHED", "MATCHED"):
        ev = Panoptica_Evaluator(expected_input=ITYPE[itype], instance_matcher=make_matcher(["thr", "IOU", 0.5, False]) if itype == "UNMATCHED" else None, segmentation_class_groups=groups())
        _check_evaluator(acc, {**case, "itype": itype}, ev, itype, f"{itype} evaluator with a class group named {name!r}")


def _apply_setters(ev, v, flags):
    """re-configure a live evaluator through its setters (v selects which)"""
    if v in (0, 3):
        ev.set_log_group_times(not flags[0])
    if v in (1, 3):
        ev._set_instance_matcher(make_matcher(["merge", "DSC", 0.25]))
    if v in (2, 3):
        ev._set_instance_approximator(make_approximator("scipy"))


def _setters(case, acc):
    """an evaluator that was re-configured after construction (and one re-configured after loading) must be saved as it is now"""
    tier, b, v = case["tier"], case["b"], case["v"]
    n = n_configs(tier)
    i = (b * (n // N_SETTER_BASES) + 5 * b + 1) % n
    acc.case("setters", tier, b, v)
    try:
        ev, desc, _ = build(tier, i)
    except Exception:
        acc.count("invalid_at_construction")
        return
    it = decode(tier, i)[0]
    flags = desc["flags"]
    acc.nontriv("setters", tier, b, v)
    try:
        _apply_setters(ev, v, flags)
    except Exception as e:
        acc.count("setter_rejected")
        return
    what = {0: "set_log_group_times", 1: "_set_instance_matcher", 2: "_set_instance_approximator", 3: "all three setters"}[v]
    loaded = _check_evaluator(acc, case, ev, ITYPES[it], f"configuration {desc} re-configured through {what} after construction")
    if loaded is None:
        return
    # second generation: re-configure the loaded object differently and save again
    try:
        loaded.set_log_group_times(flags[0])
        loaded._set_instance_matcher(make_matcher(["thr", "IOU", 0.75, True]))
    except Exception:
        acc.count("setter_rejected")
        return
    _check_evaluator(acc, {**case, "generation": 2}, loaded, ITYPES[it], f"configuration {desc} loaded from file, then re-configured through its setters")


def _first_diff(a, b, path="evaluator"):
    if type(a) != type(b):
        return (path.split(".")[-1], f"{path}: {a!r} vs {b!r}")
    if isinstance(a, tuple) and len(a) == 2 and isinstance(a[1], list) and isinstance(a[0], str):
        if a[0] != b[0]:
            return (path.split(".")[-1], f"{path}: type {a[0]} vs {b[0]}")
        da, db = dict(a[1]), dict(b[1])
        for k in sorted(set(da) | set(db)):
            if da.get(k, "<absent>") != db.get(k, "<absent>"):
                return _first_diff(da.get(k, "<absent>"), db.get(k, "<absent>"), f"{path}.{k.split('__')[-1]}")
    if isinstance(a, list) and isinstance(b, list) and len(a) == len(b):
        for j, (x, y) in enumerate(zip(a, b)):
            if x != y:
                return _first_diff(x, y, f"{path}[{j}]")
    return (path.split(".")[-1].split("[")[0], f"{path}: {a!r} vs {b!r}")


def _zerotp(case, acc):
    i = case["i"]
    acc.case("zerotp", i)
    names = [ECR_NAMES[(i // 5**j) % 5] for j in range(4)]
    obj = MetricZeroTPEdgeCaseHandling(no_instances_result=ECR[names[0]], empty_prediction_result=ECR[names[1]], empty_reference_result=ECR[names[2]], normal=ECR[names[3]])
    _component(acc, case, obj, MetricZeroTPEdgeCaseHandling, f"MetricZeroTPEdgeCaseHandling{names}")


def _component(acc, case, obj, cls, label):
    acc.step(3)
    try:
        loaded, t1, t2 = roundtrip(obj, cls)
    except Exception as e:
        acc.violation(f"C19:component_raised:{cls.__name__}", {**case, "component": label}, f"{label}: save/load raised {e!r}")
        return
    acc.state("comp", t1)
    acc.nontriv("comp", label)
    ok = True
    if isinstance(obj, Enum):
        if loaded is not obj and loaded != obj:
            acc.violation(f"C19:component_differs:{cls.__name__}", {**case, "component": label}, f"{label}: loaded {loaded!r}")
            ok = False
    elif struct(obj) != struct(loaded):
        acc.violation(f"C19:component_differs:{cls.__name__}", {**case, "component": label}, f"{label}: loaded object differs at {_first_diff(struct(obj), struct(loaded), cls.__name__)[1]}")
        ok = False
    if t1 != t2:
        acc.violation(f"C19:component_resave_differs:{cls.__name__}", {**case, "component": label}, f"{label}: re-saved file differs\n{t1}\n---\n{t2}")
        ok = False
    if ok:
        acc.ok()


def _components(case, acc):
    from panoptica import InputType
    from panoptica.instance_approximator import ConnectedComponentsInstanceApproximator
    from panoptica.instance_matcher import MaximizeMergeMatching, NaiveThresholdMatching
    from panoptica.metrics import MetricMode, MetricType
    from panoptica.utils.constants import CCABackend
    from panoptica.utils.edge_case_handling import EdgeCaseResult, EdgeCaseZeroTP
    from panoptica.utils.label_group import LabelGroup, LabelMergeGroup
    from panoptica.utils.segmentation_class import SegmentationClassGroups

    acc.case("components")
    for m in ("IOU", "DSC", "ASSD", "RVD", "clDSC"):
        for thr in (0.0, 0.5, 1.0 / 3.0, 2.5):
            for m2o in (False, True):
                _component(acc, case, NaiveThresholdMatching(Metric[m], thr, m2o), NaiveThresholdMatching, f"NaiveThresholdMatching({m},{thr},{m2o})")
            _component(acc, case, MaximizeMergeMatching(Metric[m], thr), MaximizeMergeMatching, f"MaximizeMergeMatching({m},{thr})")
    for b in (None, CCABackend.cc3d, CCABackend.scipy):
        _component(acc, case, ConnectedComponentsInstanceApproximator(b), ConnectedComponentsInstanceApproximator, f"CCA({b})")
    for std in ECR_NAMES:
        for h in (None, H_A, H_B):
            hh = dict(h, std=std) if h else None
            obj = make_handler(hh) if hh else EdgeCaseHandler(empty_list_std=ECR[std])
            _component(acc, case, obj, EdgeCaseHandler, f"EdgeCaseHandler({'A' if h is H_A else 'B' if h is H_B else 'default'}, std={std})")
    for labels in ([1], [2, 5], [7, 3, 1]):
        _component(acc, case, LabelGroup(labels), LabelGroup, f"LabelGroup({labels})")
        _component(acc, case, LabelMergeGroup(labels), LabelMergeGroup, f"LabelMergeGroup({labels})")
    _component(acc, case, LabelGroup([4], single_instance=True), LabelGroup, "LabelGroup([4], single)")
    _component(acc, case, LabelMergeGroup([4], single_instance=True), LabelMergeGroup, "LabelMergeGroup([4], single)")
    for g in ("plain", "plain+merge", "plain+single", "named-like-placeholder"):
        _component(acc, case, make_groups(g), SegmentationClassGroups, f"SegmentationClassGroups({g})")
    _component(acc, case, SegmentationClassGroups([LabelGroup([1]), LabelMergeGroup([2, 3])]), SegmentationClassGroups, "SegmentationClassGroups(list)")
    for en in (Metric, InputType, CCABackend, EdgeCaseResult, EdgeCaseZeroTP, MetricMode, MetricType):
        for member in en:
            _component(acc, case, member, en, f"{en.__name__}.{member.name}")


def _shipped(case, acc):
    from panoptica import Panoptica_Evaluator
    from panoptica.utils.segmentation_class import SegmentationClassGroups

    import panoptica

    acc.case("shipped")
    d = os.path.join(os.path.dirname(panoptica.__file__), "configs")
    files = sorted(f for f in os.listdir(d) if f.endswith(".yaml"))
    acc.sample({"shipped_configs": files})
    for f in files:
        cls = SegmentationClassGroups if f.startswith("SegmentationClassGroups") else Panoptica_Evaluator
        c2 = {**case, "file": f}
        acc.step(4)
        try:
            a = cls.load_from_config(os.path.join(d, f))
            b = cls.load_from_config_name(f[: -len(".yaml")])
            sa = struct(a)
            if sa != struct(b):
                acc.violation("C19:shipped_by_name_differs", c2, f"{f}: loading by name differs from loading by path")
                continue
            # history independence of loading: mutate the first object obtained by name, load again
            if cls is Panoptica_Evaluator:
                b.set_log_group_times(True)
                b._set_instance_matcher(make_matcher(["thr", "DSC", 0.123, True]))
            c = cls.load_from_config_name(f[: -len(".yaml")])
            if c is b or struct(c) != sa:
                acc.violation("C19:shipped_reload_depends_on_history", c2, f"{f}: a second load by name returns an object that differs from the file ({_first_diff(sa, struct(c), 'evaluator')[1]})")
                continue
            loaded, t1, t2 = roundtrip(a, cls)
            if struct(loaded) != sa or t1 != t2:
                acc.violation("C19:shipped_roundtrip", c2, f"{f}: save/load of the shipped configuration is not stable")
                continue
            if cls is Panoptica_Evaluator:
                it = sa and a._Panoptica_Evaluator__expected_input.name
                key = {"SEMANTIC": "SEMANTIC", "UNMATCHED_INSTANCE": "UNMATCHED", "MATCHED_INSTANCE": "MATCHED"}[it]
                if not same_behaviour(behaviour(a, key), behaviour(loaded, key)):
                    acc.violation("C19:shipped_behaviour", c2, f"{f}: loaded copy behaves differently")
                    continue
            acc.state("shipped", f)
            acc.nontriv("shipped", f)
            acc.ok()
        except Exception as e:
            acc.violation(f"C19:shipped_raised:{type(e).__name__}", c2, f"{f}: {e!r}")


SENS_FIELDS = ("approximator", "matcher", "handler", "groups", "decision")


def _sens(case, acc):
    """every option field must matter on some probe (otherwise behavioural equality would be vacuous for it)"""
    acc.case("sens")
    dims = DIMS("quick")
    pos = {"approximator": 1, "matcher": 2, "handler": 3, "groups": 4, "decision": 7}

    def index(vals):
        i, mul = 0, 1
        for v, d in zip(vals, dims):
            i += v * mul
            mul *= d
        return i

    bases = {"approximator": [0, 1, 1, 0, 0, 0, 0, 0, 0], "matcher": [1, 0, 1, 0, 0, 0, 0, 0, 0], "handler": [1, 0, 1, 0, 0, 0, 0, 0, 0], "groups": [1, 0, 1, 0, 0, 0, 0, 0, 0], "decision": [2, 0, 0, 0, 0, 0, 0, 0, 0]}
    for field in SENS_FIELDS:
        vals = list(bases[field])
        seen = []
        for v in range(dims[pos[field]]):
            vals[pos[field]] = v
            try:
                ev, desc, _ = build("quick", index(vals))
                seen.append(behaviour(ev, ITYPES[vals[0]]))
            except Exception:
                seen.append("INVALID")
        distinct = 0
        for a in range(len(seen)):
            if all(seen[a] == "INVALID" or seen[b] == "INVALID" or not same_behaviour(seen[a], seen[b]) for b in range(a)):
                distinct += 1
        acc.count(f"sens_{field}_distinct", distinct)
        acc.count(f"sens_{field}_values", len(seen))
        acc.step(len(seen))
    acc.state("sens")
    acc.ok()


def finish(tier, summary):
    c = summary["counters"]
    weak = [f for f in SENS_FIELDS if c.get(f"sens_{f}_distinct", 0) < c.get(f"sens_{f}_values", 1)]
    out = {"sensitivity": {f: f"{c.get(f'sens_{f}_distinct', 0)}/{c.get(f'sens_{f}_values', 0)} values distinguishable on the probes" for f in SENS_FIELDS}}
    if summary["blocks_done"] == summary["blocks_total"] and weak:
        out["vacuous"] = f"probe inputs do not distinguish all values of {weak}"
    return out
