"""C20 - dataset summaries are the statistics of exactly the recorded finite values.

All result tables of the stated shapes over a small cell alphabet (missing, nan, inf, -inf, finite values) - hence every
pattern of missing values and every row order - are loaded through Panoptica_Statistic.from_file (in-memory file
system) and built through the constructor; summaries are compared with plain-Python statistics of the finite values.
"""
from __future__ import annotations

import itertools
import math

from .. import refmodel as rm
from .. import scopes as sc
from .. import vfs

ID = "C20"
LEVEL = "model_checking"
ALPHA_Q = ("", "nan", "inf", "-inf", "0.5", "2.5")
ALPHA_T = ("", "nan", "inf", "-inf", "0.0", "0.5", "1.0", "2.5")
RULE = (
    "all (4,1,1) tables over {missing, 1e8, 1e8+1, 1e8+4, 98765432.1, -0.5} (large offset, small spread); all tables with (subjects, groups, metrics) in {(3,2,1), (3,1,2), (4,1,1)} over the cell alphabet {missing, nan, inf, -inf, 0.5, 2.5} (thorough: + 0.0, 1.0) and (2,2,2) over {missing, nan, -inf, 0.5, 2.5}^8 (thorough: 6 symbols); "
    "the table sets are closed under row permutation, so every row order is included; each table through from_file and through the constructor, read through get_one_subject, get_summary, get_summary_across_groups, get_summary_dict and the printed summary (print_summary, both modes); all statistics objects of one worker process live in the same process one after another (class-level state would leak). "
    "non-trivial = some (group, metric) column mixes finite and non-finite cells; distinct by table"
)
ASSUMPTIONS = ["cells without any finite value are outside the statement: get_summary on them and the across-groups summary of tables containing such a column may raise and are not judged", "statistics compared to 1e-12"]
BUDGET = {"quick": 200, "thorough": 1500}
ALPHA_BIG = ("", "100000000.0", "100000001.0", "100000004.0", "98765432.1", "-0.5")
SHAPES_Q = [((4, 1, 1), ALPHA_BIG), ((3, 2, 1), ALPHA_Q), ((3, 1, 2), ALPHA_Q), ((4, 1, 1), ALPHA_Q), ((2, 2, 2), ("", "nan", "-inf", "0.5", "2.5"))]
SHAPES_T = [((4, 1, 1), ALPHA_BIG), ((3, 2, 1), ALPHA_BIG), ((3, 2, 1), ALPHA_T), ((3, 1, 2), ALPHA_T), ((4, 1, 1), ALPHA_T), ((2, 2, 2), ALPHA_Q), ((5, 1, 1), ALPHA_Q)]


def blocks(tier):
    B = []
    for si, (shape, alpha) in enumerate(SHAPES_Q if tier == "quick" else SHAPES_T):
        ncell = shape[0] * shape[1] * shape[2]
        n = len(alpha) ** ncell
        for lo, hi in sc.ranges(n, 3000):
            B.append((tier, si, lo, hi))
    return B


def run_block(block, acc):
    tier, si, lo, hi = block
    for i in range(lo, hi):
        run_case({"tier": tier, "si": si, "i": i}, acc)


def finite(cell):
    if cell == "":
        return None
    v = float(cell)
    return v if math.isfinite(v) else None


def run_case(case, acc):
    from panoptica import Panoptica_Statistic

    shape, alpha = (SHAPES_Q if case["tier"] == "quick" else SHAPES_T)[case["si"]]
    ns, ng, nm = shape
    ncell = ns * ng * nm
    x = case["i"]
    cells = []
    for _ in range(ncell):
        cells.append(alpha[x % len(alpha)])
        x //= len(alpha)
    acc.case(case["tier"], case["si"], case["i"])
    groups = ["g%d" % g for g in range(ng)]
    metrics = ["m%d" % m for m in range(nm)]
    subjects = ["s%d" % s for s in range(ns)]
    # row-major: subject, then group, then metric (the aggregator's layout)
    table = [[cells[(s * ng + g) * nm + m] for g in range(ng) for m in range(nm)] for s in range(ns)]
    header = ["subject_name"] + [f"{g}-{m}" for g in groups for m in metrics]
    text = "\t".join(header) + "\n" + "".join("\t".join([subjects[s]] + table[s]) + "\n" for s in range(ns))
    col = {(g, m): [finite(table[s][gi * nm + mi]) for s in range(ns)] for gi, g in enumerate(groups) for mi, m in enumerate(metrics)}
    mixed = any(any(v is None for v in c) and any(v is not None for v in c) for c in col.values())
    if mixed:
        acc.nontriv(case["tier"], case["si"], case["i"])
    if acc.evaluations % 20011 == 1:
        acc.sample({"tsv": text})
    stats = []
    # explicit two-object history: a predecessor object over the same groups / metrics / subjects with different values is
    # created and fully queried first (state shared between objects would show in the object under test)
    try:
        import contextlib
        import io

        pre = Panoptica_Statistic(subj_names=list(subjects), value_dict={g: {m: [7.25 + s for s in range(ns)] for m in metrics} for g in groups})
        pre.get_summary_dict()
        pre.get_one_subject(subjects[0])
    except Exception as e:
        acc.violation(f"C20:predecessor_raised:{type(e).__name__}", case, f"an all-finite table raised {e!r}")
    acc.step()
    try:
        vfs.reset({"/vfs/t/x.tsv": text})
        stats.append(("from_file", Panoptica_Statistic.from_file("/vfs/t/x.tsv")))
    except Exception as e:
        acc.violation(f"C20:from_file_raised:{type(e).__name__}", case, f"from_file raised {e!r} on\n{text}")
    acc.step()
    try:
        vd = {g: {m: list(col[(g, m)]) for m in metrics} for g in groups}
        stats.append(("constructor", Panoptica_Statistic(subj_names=list(subjects), value_dict=vd)))
    except Exception as e:
        acc.violation(f"C20:constructor_raised:{type(e).__name__}", case, f"constructor raised {e!r} on\n{text}")
    for how, st in stats:
        acc.state(how, case["tier"], case["si"], case["i"])
        ok = True
        # per-subject lookup
        for s in range(ns):
            try:
                one = st.get_one_subject(subjects[s])
            except Exception as e:
                acc.violation(f"C20:{how}:get_one_subject_raised", case, f"get_one_subject({subjects[s]}) raised {e!r} on\n{text}")
                ok = False
                continue
            for g in groups:
                for m in metrics:
                    exp = col[(g, m)][s]
                    got = one.get(g, {}).get(m, "MISSING")
                    if not rm.close(got, exp) if not isinstance(got, str) else True:
                        cell = table[s][groups.index(g) * nm + metrics.index(m)]
                        acc.violation(f"C20:{how}:subject_value:{'neg_inf' if cell == '-inf' else 'cell'}", case, f"{how}: get_one_subject({subjects[s]})[{g}][{m}]={got!r} but the recorded cell is {cell!r} (expected {exp!r}) in\n{text}")
                        ok = False
        # summaries
        avgs = {}
        for (g, m), c in col.items():
            fin = [v for v in c if v is not None]
            if not fin:
                continue
            exp = rm.summary_stats(fin)
            try:
                sm = st.get_summary(g, m)
                got = dict(avg=sm.avg, std=sm.std, min=sm.min, max=sm.max)
            except Exception as e:
                acc.violation(f"C20:{how}:summary_raised:{type(e).__name__}", case, f"{how}: get_summary({g},{m}) raised {e!r} with finite values {fin} in\n{text}")
                ok = False
                continue
            avgs[(g, m)] = exp["avg"]
            bad = [k for k in exp if not rm.close(float(got[k]), exp[k], rel=1e-12, abs_=64 * 2.22e-16 * max(1.0, max(abs(v) for v in fin)))]
            if bad:
                has_ninf = any(table[s][groups.index(g) * nm + metrics.index(m)] == "-inf" for s in range(ns))
                acc.violation(f"C20:{how}:summary:{'neg_inf' if has_ninf else 'values'}", case, f"{how}: summary of ({g},{m}) = {got} but the finite recorded values {fin} give {exp} in\n{text}")
                ok = False
        # across groups: statistics over the per-group averages (judged only if every column has a finite value)
        if len(avgs) == len(col):
            try:
                ac = st.get_summary_across_groups()
                for m in metrics:
                    exp = rm.summary_stats([avgs[(g, m)] for g in groups])
                    got = dict(avg=ac[m].avg, std=ac[m].std, min=ac[m].min, max=ac[m].max)
                    bad = [k for k in exp if not rm.close(float(got[k]), exp[k], rel=1e-12)]
                    if bad:
                        acc.violation(f"C20:{how}:across_groups", case, f"{how}: across-groups summary of {m} = {got}, statistics over the per-group averages give {exp} in\n{text}")
                        ok = False
            except Exception as e:
                acc.violation(f"C20:{how}:across_groups_raised:{type(e).__name__}", case, f"{how}: get_summary_across_groups raised {e!r} in\n{text}")
                ok = False
        # the same statistics through get_summary_dict() and the printed summary (both per group and across groups)
        if len(avgs) == len(col):
            try:
                import contextlib
                import io

                sd = st.get_summary_dict()
                for (g, m), c in col.items():
                    fin = [v for v in c if v is not None]
                    exp = rm.summary_stats(fin)
                    sm = sd[g][m]
                    got = dict(avg=sm.avg, std=sm.std, min=sm.min, max=sm.max)
                    if [k for k in exp if not rm.close(float(got[k]), exp[k], rel=1e-12, abs_=64 * 2.22e-16 * max(1.0, max(abs(v) for v in fin)))]:
                        acc.violation(f"C20:{how}:summary_dict", case, f"{how}: get_summary_dict()[{g}][{m}] = {got} but the finite recorded values {fin} give {exp} in\n{text}")
                        ok = False
                for m in metrics:
                    exp = rm.summary_stats([avgs[(g, m)] for g in groups])
                    sm = sd["across_groups"][m]
                    got = dict(avg=sm.avg, std=sm.std, min=sm.min, max=sm.max)
                    if [k for k in exp if not rm.close(float(got[k]), exp[k], rel=1e-12)]:
                        acc.violation(f"C20:{how}:summary_dict_across_groups", case, f"{how}: get_summary_dict()['across_groups'][{m}] = {got}, statistics over the per-group averages give {exp} in\n{text}")
                        ok = False
                for only_across in (False, True):
                    buf = io.StringIO()
                    with contextlib.redirect_stdout(buf):
                        st.print_summary(ndigits=6, only_across_groups=only_across)
                    cur = None
                    seen = 0
                    for line in buf.getvalue().splitlines():
                        if line.startswith("Group "):
                            cur = line[len("Group "):].rstrip(":")
                        elif " : " in line and cur is not None:
                            m, rest = line.split(" : ", 1)
                            a, sdev = [float(x) for x in rest.split(" +- ")]
                            if cur == "across_groups":
                                exp = rm.summary_stats([avgs[(g, m)] for g in groups])
                            else:
                                exp = rm.summary_stats([v for v in col[(cur, m)] if v is not None])
                            seen += 1
                            if abs(a - exp["avg"]) > 1e-6 * max(1.0, abs(exp["avg"])) or abs(sdev - exp["std"]) > 1e-6 * max(1.0, abs(exp["std"])):
                                acc.violation(f"C20:{how}:printed_summary", case, f"{how}: print_summary(only_across_groups={only_across}) shows {m} of group {cur} as {a} +- {sdev}, the recorded values give {exp['avg']} +- {exp['std']} in\n{text}")
                                ok = False
                    if seen != (nm if only_across else ng * nm):
                        acc.violation(f"C20:{how}:printed_summary_incomplete", case, f"{how}: print_summary(only_across_groups={only_across}) printed {seen} entries:\n{buf.getvalue()}")
                        ok = False
            except Exception as e:
                acc.violation(f"C20:{how}:summary_dict_raised:{type(e).__name__}", case, f"{how}: get_summary_dict / print_summary raised {e!r} in\n{text}")
                ok = False
        # history independence of lookups: summarising (also through ValueSummary(stat.get(g, m)), the idiom of the library's
        # own tests) must not disturb what later per-subject lookups return
        try:
            from panoptica import ValueSummary

            for (g, m), c in col.items():
                if all(v is not None for v in c):
                    ValueSummary(st.get(g, m))
                st.get(g, m, remove_nones=True)
            for m in metrics:
                st.get_across_groups(m)
            # ... and the summaries themselves must still be those of the recorded values
            for (g, m), c in col.items():
                fin = [v for v in c if v is not None]
                if fin:
                    sm = st.get_summary(g, m)
                    exp = rm.summary_stats(fin)
                    got = dict(avg=sm.avg, std=sm.std, min=sm.min, max=sm.max)
                    if [k for k in exp if not rm.close(float(got[k]), exp[k], rel=1e-12, abs_=64 * 2.22e-16 * max(1.0, max(abs(v) for v in fin)))]:
                        acc.violation(f"C20:{how}:summary_after_queries", case, f"{how}: after get_across_groups / ValueSummary queries the summary of ({g},{m}) = {got}, the finite recorded values {fin} give {exp} in\n{text}")
                        ok = False
            for s in range(ns):
                one = st.get_one_subject(subjects[s])
                for g in groups:
                    for m in metrics:
                        if not rm.close(one[g][m], col[(g, m)][s]):
                            acc.violation(f"C20:{how}:subject_value_after_summaries", case, f"{how}: after computing summaries get_one_subject({subjects[s]})[{g}][{m}]={one[g][m]!r}, recorded {col[(g, m)][s]!r} in\n{text}")
                            ok = False
            for (g, m), c in col.items():
                if [x for x in st.get(g, m)] != c and not all(rm.close(a, b) for a, b in zip(st.get(g, m), c)):
                    acc.violation(f"C20:{how}:column_order_after_summaries", case, f"{how}: after computing summaries get({g},{m})={st.get(g, m)!r}, recorded in subject order {c!r}")
                    ok = False
        except Exception as e:
            acc.violation(f"C20:{how}:lookup_after_summaries_raised:{type(e).__name__}", case, f"{how}: {e!r} in\n{text}")
            ok = False
        acc.outcome(tuple(sorted((k, round(v, 9)) for k, v in avgs.items())))
        if ok:
            acc.ok()
