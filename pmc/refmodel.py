"""Reference model: the published definitions over voxel *sets*, written for obviousness.

No numeric code is shared with panoptica: numpy is used only to read the input arrays. Overlap metrics are
exact rationals turned into a float by ONE correctly rounded division (bit-comparable with a single
int/int true division); distances are brute force.
"""
from __future__ import annotations

import itertools
import math
from fractions import Fraction

import numpy as np

REL = 1e-9
ABS = 1e-12


# ------------------------------------------------------------------------------------------------ voxel sets
def voxsets(arr) -> dict:
    """label -> frozenset of coordinates, for every non-zero label."""
    shape = arr.shape
    out: dict = {}
    if arr.ndim and arr.size > 4096:
        # large arrays: visit the non-zero voxels only (same result)
        nz = np.nonzero(arr)
        for idx, v in zip(zip(*[a.tolist() for a in nz]), arr[nz].tolist()):
            out.setdefault(int(v), set()).add(idx)
        return {k: frozenset(v) for k, v in out.items()}
    vals = arr.ravel(order="C").tolist() if arr.ndim else [arr.item()]
    for idx, v in zip(itertools.product(*[range(s) for s in shape]), vals):
        if v != 0:
            out.setdefault(int(v), set()).add(idx)
    return {k: frozenset(v) for k, v in out.items()}


def foreground(arr) -> frozenset:
    vs = voxsets(arr)
    out = set()
    for s in vs.values():
        out |= s
    return frozenset(out)


_OFFS: dict = {}


def offsets(ndim, full):
    key = (ndim, full)
    if key not in _OFFS:
        if full:
            o = [d for d in itertools.product((-1, 0, 1), repeat=ndim) if any(d)]
        else:
            o = []
            for ax in range(ndim):
                for s in (-1, 1):
                    d = [0] * ndim
                    d[ax] = s
                    o.append(tuple(d))
        _OFFS[key] = o
    return _OFFS[key]


def components(coords, ndim, full) -> list:
    """Connected components of a coordinate set (list of frozensets, in order of smallest coordinate)."""
    todo = set(coords)
    offs = offsets(ndim, full)
    comps = []
    for start in sorted(coords):
        if start not in todo:
            continue
        todo.discard(start)
        comp = {start}
        stack = [start]
        while stack:
            c = stack.pop()
            for o in offs:
                n = tuple(a + b for a, b in zip(c, o))
                if n in todo:
                    todo.discard(n)
                    comp.add(n)
                    stack.append(n)
        comps.append(frozenset(comp))
    return comps


def approx_instances(arr, backend) -> list:
    """Instances of a semantic map. backend: 'cc3d' (full connectivity, per semantic label),
    'scipy' (face connectivity on the binary foreground), None (default: cc3d iff ndim >= 3)."""
    nd = arr.ndim
    if backend is None:
        backend = "cc3d" if nd >= 3 else "scipy"
    if backend == "cc3d":
        out = []
        for lab, s in sorted(voxsets(arr).items()):
            out.extend(components(s, nd, True))
        return out
    if backend == "scipy":
        return components(foreground(arr), nd, False)
    raise ValueError(backend)


def label_instances(arr) -> dict:
    return voxsets(arr)


# ------------------------------------------------------------------------------------------------ metrics
def iou_frac(A, B):
    u = len(A | B)
    return None if u == 0 else Fraction(len(A & B), u)


def dice_frac(A, B):
    s = len(A) + len(B)
    return None if s == 0 else Fraction(2 * len(A & B), s)


def rvd_frac(ref, pred):
    return None if len(ref) == 0 else Fraction(len(pred) - len(ref), len(ref))


def f(fr):
    """Fraction -> float by one correctly rounded division."""
    return None if fr is None else fr.numerator / fr.denominator


def border(S) -> frozenset:
    """Foreground voxels with a background (or out-of-array == background) face neighbour."""
    if not S:
        return frozenset()
    nd = len(next(iter(S)))
    offs = offsets(nd, False)
    out = set()
    for c in S:
        for o in offs:
            if tuple(a + b for a, b in zip(c, o)) not in S:
                out.add(c)
                break
    return frozenset(out)


def directed_asd(frm, to):
    """Mean over border voxels of `frm` of the Euclidean distance to the nearest border voxel of `to`.
    Returns (value, all_integral)."""
    bf, bt = border(frm), border(to)
    ds = []
    integral = True
    for p in bf:
        best = min(sum((a - b) ** 2 for a, b in zip(p, q)) for q in bt)
        r = math.isqrt(best)
        if r * r != best:
            integral = False
        ds.append(math.sqrt(best))
    return math.fsum(ds) / len(ds), integral


def assd(ref, pred):
    a, i1 = directed_asd(pred, ref)
    b, i2 = directed_asd(ref, pred)
    return (a + b) / 2.0


def assd_info(ref, pred):
    a, i1 = directed_asd(pred, ref)
    b, i2 = directed_asd(ref, pred)
    return (a + b) / 2.0, (i1 and i2)


METRICS = ("IOU", "DSC", "ASSD", "RVD")
DECREASING = {"IOU": False, "DSC": False, "ASSD": True, "RVD": True, "clDSC": False}


def metric_value(name, ref, pred):
    if name == "IOU":
        return f(iou_frac(ref, pred))
    if name == "DSC":
        return f(dice_frac(ref, pred))
    if name == "RVD":
        return f(rvd_frac(ref, pred))
    if name == "ASSD":
        return assd(ref, pred)
    raise KeyError(name)


def beats(name, score, thr):
    return score <= thr if DECREASING[name] else score >= thr


def close(a, b, rel=REL, abs_=ABS):
    if a is None or b is None:
        return a is None and b is None
    if isinstance(a, float) and math.isnan(a) or isinstance(b, float) and math.isnan(b):
        return isinstance(a, float) and isinstance(b, float) and math.isnan(a) and math.isnan(b)
    if math.isinf(a) or math.isinf(b):
        return a == b
    return abs(a - b) <= max(abs_, rel * max(abs(a), abs(b)))


# ------------------------------------------------------------------------------------------------ pair model
class RefPair:
    """Instances of both sides + lazily computed scores of overlapping pairs."""

    def __init__(self, pred_inst: list, ref_inst: list):
        # lists of frozensets; indices are instance identities
        self.P = list(pred_inst)
        self.R = list(ref_inst)
        self.cands = [(p, r) for p in range(len(self.P)) for r in range(len(self.R)) if self.P[p] & self.R[r]]
        self._score: dict = {}
        self._assd_integral: dict = {}

    def score(self, metric, p, r):
        k = (metric, p, r)
        if k not in self._score:
            if metric == "ASSD":
                v, integral = assd_info(self.R[r], self.P[p])
                self._assd_integral[(p, r)] = integral
                self._score[k] = v
            else:
                self._score[k] = metric_value(metric, self.R[r], self.P[p])
        return self._score[k]

    def score_sets(self, metric, pset, r):
        """score of the union of several predictions against reference r"""
        U = frozenset().union(*[self.P[p] for p in pset])
        return metric_value(metric, self.R[r], U)

    def assd_integral(self, p, r):
        self.score("ASSD", p, r)
        return self._assd_integral[(p, r)]

    # -- thresholds: one representative of every behavioural equivalence class
    def thresholds(self, metric, pairs=None):
        pairs = self.cands if pairs is None else pairs
        vals = sorted({self.score(metric, p, r) for p, r in pairs})
        return threshold_classes(metric, vals)

    # -- admissible one-to-one greedy matchings
    def admissible(self, metric, thr, cap=5040):
        """All results of best-first greedy one-to-one assignment under every ordering of tied
        candidates. Returns (set of frozenset((p,r),...), capped: bool)."""
        elig = [(self.score(metric, p, r), p, r) for p, r in self.cands if beats(metric, self.score(metric, p, r), thr)]
        elig.sort(key=lambda t: t[0], reverse=not DECREASING[metric])
        groups = []
        for s, p, r in elig:
            if groups and close(groups[-1][0], s):
                groups[-1][1].append((p, r))
            else:
                groups.append([s, [(p, r)]])
        states = {frozenset()}
        capped = False
        for s, grp in groups:
            new = set()
            for st in states:
                usedp = {p for p, r in st}
                usedr = {r for p, r in st}
                free = [(p, r) for p, r in grp if p not in usedp and r not in usedr]
                if len(free) <= 1:
                    new.add(st | frozenset(free))
                    continue
                if math.factorial(len(free)) > cap:
                    capped = True
                    free = free[:6]
                for perm in itertools.permutations(free):
                    cur = set(st)
                    up, ur = set(usedp), set(usedr)
                    for p, r in perm:
                        if p not in up and r not in ur:
                            cur.add((p, r))
                            up.add(p)
                            ur.add(r)
                    new.add(frozenset(cur))
            states = new
        return states, capped


def threshold_classes(metric, vals):
    """breakpoints (exact hits), one interior point per gap, one point beyond each end."""
    out = []
    dec = DECREASING[metric]
    if not vals:
        return [0.5] if not dec else [1.0]
    lo, hi = vals[0], vals[-1]
    if dec:
        if lo > 0:
            out.append(lo / 2.0)
    else:
        out.append(lo / 2.0 if lo > 0 else 0.0)
    for i, v in enumerate(vals):
        out.append(v)
        if i + 1 < len(vals):
            m = (v + vals[i + 1]) / 2.0
            if v < m < vals[i + 1]:
                out.append(m)
    out.append(hi + 1.0 if dec else (hi + 1.0) / 2.0 if hi < 1 else 1.5)
    # the legal end points of the threshold range themselves (0 is falsy, 1 is the identical-masks boundary)
    out.append(0.0)
    if not dec:
        out.append(1.0)
    # dedupe, keep order
    seen = set()
    res = []
    for t in out:
        if t not in seen:
            seen.add(t)
            res.append(t)
    return res


# ------------------------------------------------------------------------------------------------ evaluation
def evaluate(rp: RefPair, assignment, metrics=METRICS, decision=None, n_pred=None, n_ref=None):
    """assignment: iterable of (p, r) (many-to-one allowed: several p for one r).
    decision: None or (metric, threshold). Returns dict with counts, per-TP tuples, aggregates."""
    byref: dict = {}
    for p, r in assignment:
        byref.setdefault(r, []).append(p)
    n_ref = len(rp.R) if n_ref is None else n_ref
    if n_pred is None:
        matched_preds = {p for p, r in assignment}
        n_pred = (len(rp.P) - len(matched_preds)) + len(byref)
    rows = []
    for r, ps in sorted(byref.items()):
        U = frozenset().union(*[rp.P[p] for p in ps])
        vals = {m: metric_value(m, rp.R[r], U) for m in metrics}
        if decision is not None:
            dm, dt = decision
            dv = vals[dm] if dm in vals else metric_value(dm, rp.R[r], U)
            if not beats(dm, dv, dt):
                continue
        rows.append(vals)
    tp = len(rows)
    return summarize(tp, n_pred, n_ref, rows, metrics)


def mean(xs):
    return math.fsum(xs) / len(xs)


def pstd(xs):
    m = mean(xs)
    return math.sqrt(math.fsum((x - m) ** 2 for x in xs) / len(xs))


def summarize(tp, n_pred, n_ref, rows, metrics):
    res = dict(tp=tp, fp=n_pred - tp, fn=n_ref - tp, num_pred_instances=n_pred, num_ref_instances=n_ref, rows=rows)
    if tp == 0:
        res["rq"] = 0.0 if n_pred + n_ref > 0 else float("nan")
    else:
        res["rq"] = tp / (tp + 0.5 * res["fp"] + 0.5 * res["fn"])
    for m in metrics:
        if tp > 0:
            xs = [row[m] for row in rows]
            res["sq_" + m] = mean(xs)
            res["std_" + m] = pstd(xs)
            res["pq_" + m] = res["sq_" + m] * res["rq"]
    return res


# ------------------------------------------------------------------------------------------------ statistics
def summary_stats(values):
    xs = list(values)
    return dict(avg=mean(xs), std=pstd(xs), min=min(xs), max=max(xs))
