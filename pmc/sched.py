"""Cooperative scheduler: real threads, one baton, scheduling point before every lock acquire and every file
operation of the in-memory file system. Stateless replay + state caching (explicit-state BFS over reachable states) and
preemption-bounded DFS.

A worker body is a zero-argument callable. An execution is driven by a *schedule*: the list of worker ids chosen at the
successive scheduling decisions; once the schedule is exhausted either the execution is stopped (`stop=True`, used by
the BFS to read the state reached) or continued with the default policy (keep running the current worker if enabled,
else the lowest enabled id).
"""
from __future__ import annotations

import threading
import traceback

from . import seams, vfs


class ReplayDivergence(Exception):
    pass


ALL_LOCKS: list = []  # every lock the library created through multiprocessing.Lock (import time or later)


def reset_locks():
    """a fresh process / a fresh replay: nobody holds anything"""
    for l in ALL_LOCKS:
        l.holder = None


class SchedLock:
    """multiprocessing.Lock stand-in: acquisition is a scheduling point; a held lock disables the acquirer."""

    _n = 0

    def __init__(self):
        self.holder = None
        SchedLock._n += 1
        self.name = f"L{SchedLock._n}"
        ALL_LOCKS.append(self)

    def acquire(self, block=True, timeout=None):
        s = CURRENT
        if s is not None and s.in_worker():
            s.point("lock.acquire", self)
            if vfs.fs.crashed:
                return True
            assert self.holder is None, "scheduler granted a held lock"
            self.holder = s.me()
        else:
            vfs.op("lock.acquire", self)
            self.holder = "main"
        return True

    def release(self):
        self.holder = None
        s = CURRENT
        if s is None or not s.in_worker():
            vfs.op("lock.release", self)

    def __enter__(self):
        self.acquire()
        return self

    def __exit__(self, *a):
        self.release()
        return False


CURRENT = None  # the active Execution


class Worker:
    def __init__(self, wid, body):
        self.wid = wid
        self.body = body
        self.go = threading.Semaphore(0)
        self.thread = None
        self.pending = None  # (kind, detail) of the operation it is about to perform
        self.done = False
        self.started = False
        self.exc = None
        self.result = None
        self.npoints = 0
        self.obs = []  # what this worker has observed so far (reads)
        self.trace = []


class Execution:
    def __init__(self, bodies, locks=()):
        self.workers = [Worker(i, b) for i, b in enumerate(bodies)]
        self.back = threading.Semaphore(0)  # worker -> scheduler: "I am at a point / done"
        self.tid2w = {}
        self.choices = []  # worker id chosen at each decision
        self.enabled_log = []  # enabled sets at each decision
        self.preemptions = 0
        self.last = None
        self.deadlock = False
        self.locks = list(locks)
        self.stopped = False
        self.line_targets = None  # {worker id: index of the line event that becomes a scheduling point}
        self.line_root = None
        # digest of the in-memory objects the workers share (thread mode) or own (process mode): part of the state key, and
        # recorded into a worker's observations at the start of each of its steps (what it can read between two points)
        self.mem_digest = None
        self.proc_images = None  # ProcImages in forked-process mode

    # ---- worker side
    def in_worker(self):
        return threading.get_ident() in self.tid2w

    def me(self):
        return self.tid2w[threading.get_ident()].wid

    def point(self, kind, detail):
        w = self.tid2w[threading.get_ident()]
        w.pending = (kind, detail)
        w.npoints += 1
        self.back.release()
        w.go.acquire()
        w.pending = None
        if vfs.fs.crashed:
            raise vfs.Crash()
        w.trace.append(kind if not isinstance(detail, str) else f"{kind}:{detail.rsplit('/', 1)[-1]}")

    def on_op(self, kind, detail):
        """vfs hook: file operations are scheduling points (lock operations come through SchedLock)"""
        if kind.startswith("lock."):
            return
        if self.in_worker():
            self.point(kind, detail)

    def note_read(self, path, content):
        if self.in_worker():
            self.tid2w[threading.get_ident()].obs.append((path, hash(content)))

    def _tracer(self, w):
        """line-granularity mode: the k-th 'line' event of this worker inside the library becomes a scheduling point"""
        import sys

        root = self.line_root
        target = self.line_targets.get(w.wid)
        w.nlines = 0

        def local(frame, event, arg):
            if event == "line":
                w.nlines += 1
                if w.nlines == target:
                    w.line_at = f"{frame.f_code.co_filename.rsplit('/', 1)[-1]}:{frame.f_lineno}"
                    self.point("line", w.line_at)
            return local

        def glob(frame, event, arg):
            if event == "call" and frame.f_code.co_filename.startswith(root):
                return local
            return None

        sys.settrace(glob)

    def _main(self, w):
        self.tid2w[threading.get_ident()] = w
        w.go.acquire()
        try:
            if vfs.fs.crashed:
                raise vfs.Crash()
            if self.line_targets is not None:
                self._tracer(w)
            w.result = w.body()
        except vfs.Crash:
            pass
        except BaseException as e:  # noqa: BLE001 - recorded, judged by the oracle
            w.exc = e
            w.exc_tb = traceback.format_exc()
        finally:
            w.done = True
            self.back.release()

    # ---- scheduler side
    def enabled(self):
        out = []
        for w in self.workers:
            if w.done:
                continue
            if w.pending is not None and w.pending[0] == "lock.acquire" and w.pending[1].holder is not None:
                continue
            out.append(w.wid)
        if self.last is not None and self.last in out:
            out.remove(self.last)
            out.insert(0, self.last)
        return out

    def state_key(self):
        files = vfs.fs.snapshot()
        locks = tuple((i, l.holder) for i, l in enumerate(self.locks))
        ws = tuple((w.wid, w.done, w.npoints, w.pending[0] if w.pending else None, hash(tuple(w.obs)), repr(type(w.exc).__name__) if w.exc else None) for w in self.workers)
        mem = self.mem_digest() if self.mem_digest is not None else None
        return (files, locks, ws, mem)

    def run(self, schedule, stop=False, max_steps=10000, policy=None):
        """returns self. `schedule`: worker ids for the first decisions (a non-enabled id is a hard error)."""
        global CURRENT
        CURRENT = self
        vfs.on_op = self.on_op
        vfs.on_read = self.note_read
        for w in self.workers:
            w.thread = threading.Thread(target=self._main, args=(w,), daemon=True)
            w.thread.start()
        try:
            step = 0
            self.final_enabled, self.final_deadlock, self.final_key = [], False, None
            while True:
                en = self.enabled()
                if not en:
                    if any(not w.done for w in self.workers):
                        self.deadlock = True
                    self.final_enabled, self.final_deadlock, self.final_key = [], self.deadlock, self.state_key()
                    break
                if step < len(schedule):
                    c = schedule[step]
                    if c not in en:
                        raise ReplayDivergence(f"step {step}: scheduled worker {c} not enabled {en}")
                elif stop:
                    self.stopped = True
                    self.final_enabled, self.final_key = sorted(en), self.state_key()
                    break
                elif policy is not None:
                    c = policy(self, en)
                else:
                    c = en[0]
                if self.last is not None and c != self.last and self.last in en:
                    self.preemptions += 1
                self.choices.append(c)
                self.enabled_log.append(tuple(en))
                self.last = c
                w = self.workers[c]
                if self.proc_images is not None:
                    self.proc_images.swap_in(c)
                if self.mem_digest is not None:
                    w.obs.append(("mem", self.mem_digest()))
                w.go.release()
                if not self.back.acquire(timeout=120):  # until it reaches its next point or finishes
                    raise RuntimeError(f"worker {c} neither reached a scheduling point nor finished within 120 s (blocked on something the scheduler does not own)")
                if self.proc_images is not None:
                    self.proc_images.swap_out(c)
                step += 1
                if step > max_steps:
                    raise RuntimeError("scheduler horizon exceeded")
        finally:
            self._abort()
            if self.proc_images is not None:
                self.proc_images.restore()
            CURRENT = None
            vfs.on_op = None
            vfs.on_read = None
        return self

    def _abort(self):
        """stop all unfinished workers: the file system stops reacting, blocked workers wake up and unwind"""
        alive = [w for w in self.workers if not w.done]
        if alive:
            vfs.fs.crashed = True
            for w in alive:
                w.go.release()
            for w in alive:
                w.thread.join(timeout=10)
        for w in self.workers:
            if w.thread is not None:
                w.thread.join(timeout=10)


# ------------------------------------------------------------------------------------------------ explorers
def digest(obj, depth=0):
    """generic digest of an object graph's plain data (lists, dicts, sets, scalars, paths, nested objects' __dict__)"""
    if depth > 6:
        return "..."
    if obj is None or isinstance(obj, (bool, int, float, str, bytes)):
        return repr(obj)
    if isinstance(obj, (list, tuple)):
        return "[" + ",".join(digest(x, depth + 1) for x in obj) + "]"
    if isinstance(obj, (set, frozenset)):
        return "{" + ",".join(sorted(digest(x, depth + 1) for x in obj)) + "}"
    if isinstance(obj, dict):
        return "{" + ",".join(sorted(digest(k, depth + 1) + ":" + digest(v, depth + 1) for k, v in obj.items())) + "}"
    if hasattr(obj, "__fspath__"):
        return repr(str(obj))
    if hasattr(obj, "dtype") and hasattr(obj, "tobytes"):
        return f"nd({obj.dtype},{getattr(obj, 'shape', ())},{hash(obj.tobytes())})"
    if isinstance(obj, SchedLock):
        return "lock"
    d = getattr(obj, "__dict__", None)
    if d is not None and depth < 4:
        return type(obj).__name__ + digest(d, depth + 1)
    return type(obj).__name__


class ProcImages:
    """forked-process mode: each worker owns a private image of panoptica's module-level data (module attributes that are
    not modules / functions / classes / locks, and the mutable default arguments of its functions), as fork gives every child
    its own copy of the interpreter state. The image of the worker about to run is swapped in, and saved again after its step."""

    def __init__(self, nworkers, base=None):
        self.base = base if base is not None else capture_image()
        self.images = [_copy_image(self.base) for _ in range(nworkers)]

    _KEYS = None  # the (kind, module, attribute[, method]) slots, discovered once

    @classmethod
    def _discover(cls):
        import sys
        import types

        keys = []
        for name, mod in list(sys.modules.items()):
            if not name.startswith("panoptica") or mod is None:
                continue
            for attr, val in list(vars(mod).items()):
                if attr.startswith("__"):
                    continue
                if isinstance(val, (types.ModuleType, types.FunctionType, types.BuiltinFunctionType, type, SchedLock)):
                    if isinstance(val, types.FunctionType) and val.__module__ == name and val.__defaults__:
                        if any(isinstance(d, (list, dict, set)) for d in val.__defaults__):
                            keys.append(("defaults", name, attr))
                    if isinstance(val, type) and val.__module__ == name:
                        for a2, v2 in list(vars(val).items()):
                            f = v2.__func__ if isinstance(v2, (classmethod, staticmethod)) else v2
                            if isinstance(f, types.FunctionType) and f.__defaults__ and any(isinstance(d, (list, dict, set)) for d in f.__defaults__):
                                keys.append(("cdefaults", name, attr, a2))
                    continue
                if callable(val) and not isinstance(val, (list, dict, set)):
                    continue
                keys.append(("attr", name, attr))
        cls._KEYS = keys

    @classmethod
    def _snapshot(cls):
        import sys

        if cls._KEYS is None:
            cls._discover()
        out = {}
        for k in cls._KEYS:
            try:
                if k[0] == "attr":
                    out[k] = getattr(sys.modules[k[1]], k[2])
                elif k[0] == "defaults":
                    out[k] = getattr(sys.modules[k[1]], k[2]).__defaults__
                else:
                    f = vars(getattr(sys.modules[k[1]], k[2]))[k[3]]
                    f = f.__func__ if isinstance(f, (classmethod, staticmethod)) else f
                    out[k] = f.__defaults__
            except Exception:
                pass
        # module attributes created since discovery (a cache bound lazily) are part of the image as well
        for name in [k[1] for k in cls._KEYS if k[0] == "attr"][:0]:
            pass
        return out

    def swap_in(self, wid):
        import sys

        for k, v in self.images[wid].items():
            try:
                if k[0] == "attr":
                    setattr(sys.modules[k[1]], k[2], v)
                elif k[0] == "defaults":
                    getattr(sys.modules[k[1]], k[2]).__defaults__ = v
                elif k[0] == "cdefaults":
                    f = vars(getattr(sys.modules[k[1]], k[2]))[k[3]]
                    f = f.__func__ if isinstance(f, (classmethod, staticmethod)) else f
                    f.__defaults__ = v
            except Exception:
                pass

    def swap_out(self, wid):
        cur = self._snapshot()
        self.images[wid].update(cur)

    def restore(self):
        """back to the base image (end of an execution)"""
        restore_image(self.base)

    def digest(self):
        return hash(tuple(digest(sorted(((repr(k), digest(v, 2)) for k, v in img.items()))) for img in self.images))


def _copy_image(img):
    import copy

    out = {}
    for k, v in img.items():
        try:
            out[k] = copy.deepcopy(v)
        except Exception:
            out[k] = v
    return out


_PRISTINE_ATTRS: dict = {}


def capture_image():
    """deep copy of panoptica's module-level data as it is now (see ProcImages)"""
    import sys

    snap = ProcImages._snapshot()
    if not _PRISTINE_ATTRS:
        for name, mod in list(sys.modules.items()):
            if name.startswith("panoptica") and mod is not None:
                _PRISTINE_ATTRS[name] = set(vars(mod))
    return _copy_image(snap)


def restore_image(img):
    """make panoptica's module-level data equal to (a fresh copy of) the image: what a fresh process / a fresh replay starts from.
    Module attributes that did not exist when the first image was taken (lazily bound caches) are removed."""
    import sys

    for name, attrs in _PRISTINE_ATTRS.items():
        mod = sys.modules.get(name)
        if mod is None:
            continue
        for a in [a for a in vars(mod) if a not in attrs and not a.startswith("__")]:
            try:
                delattr(mod, a)
            except Exception:
                pass
    p = ProcImages.__new__(ProcImages)
    p.images = [_copy_image(img)]
    p.swap_in(0)


_GLOBAL_CONTAINERS = None


def global_state_digest():
    """digest of panoptica's module-level data (the slots of ProcImages): shared in-memory state outside the driven objects is
    part of the explored state as well"""
    return hash(tuple((k, digest(v, 2)) for k, v in sorted(ProcImages._snapshot().items(), key=lambda kv: repr(kv[0]))))


def explore_states(make, judge_terminal, max_states=200000, should_stop=None):
    """Explicit-state BFS with stateless replay and state caching.
    make() -> (bodies, locks, context): builds a fresh initial configuration (fresh file system content, fresh locks);
    called once per replay. judge_terminal(execution, context, schedule) is called on every distinct terminal state
    (all workers done, or deadlock). Each transition = one replay from the initial state."""
    from collections import deque

    stats = dict(states=0, transitions=0, terminals=0, executions=0, deadlocks=0, max_depth=0, capped=False)

    def replay(schedule):
        bodies, locks, ctx = make()
        ex = Execution(bodies, locks)
        if isinstance(ctx, dict) and ctx.get("mem_digest") is not None:
            ex.mem_digest = ctx["mem_digest"]
        if isinstance(ctx, dict) and ctx.get("proc_images"):
            ex.proc_images = ProcImages(len(bodies), ctx.get("image"))
            base_digest = ex.mem_digest
            ex.mem_digest = (lambda ex=ex, base_digest=base_digest: hash((base_digest() if base_digest else 0, ex.proc_images.digest())))
        ex.run(schedule, stop=True)
        stats["executions"] += 1
        return ex, ctx

    ex, ctx = replay([])
    seen = {ex.final_key}
    stats["states"] = 1
    frontier = deque()
    if ex.final_enabled:
        frontier.append(([], ex.final_enabled))
    else:
        stats["terminals"] += 1
        judge_terminal(ex, ctx, [])
    while frontier:
        sched, en = frontier.popleft()
        for c in en:
            ex2, ctx2 = replay(sched + [c])
            stats["transitions"] += 1
            k = ex2.final_key
            if k in seen:
                continue
            seen.add(k)
            stats["states"] += 1
            stats["max_depth"] = max(stats["max_depth"], len(sched) + 1)
            if not ex2.final_enabled:
                stats["terminals"] += 1
                if ex2.final_deadlock:
                    stats["deadlocks"] += 1
                judge_terminal(ex2, ctx2, sched + [c])
            else:
                frontier.append((sched + [c], ex2.final_enabled))
            if stats["states"] >= max_states:
                stats["capped"] = True
                return stats
            if should_stop is not None and should_stop():
                stats["capped"] = True  # stopped early: violations were already found, exhaustiveness is moot
                stats["stopped_on_violation"] = True
                return stats
    return stats


def explore_bounded(make, judge_terminal, bound, max_execs=200000):
    """Stateless DFS over complete executions with at most `bound` preemptions (iterative context bounding)."""
    stats = dict(executions=0, terminals=0, deadlocks=0, capped=False, bound=bound)

    def run(prefix):
        bodies, locks, ctx = make()
        ex = Execution(bodies, locks)
        ex.run(prefix, stop=False)
        stats["executions"] += 1
        return ex, ctx

    def rec(prefix):
        if stats["executions"] >= max_execs:
            stats["capped"] = True
            return
        ex, ctx = run(prefix)
        stats["terminals"] += 1
        if ex.deadlock:
            stats["deadlocks"] += 1
        judge_terminal(ex, ctx, list(ex.choices))
        # preemptions used before each decision
        pre = 0
        used = []
        last = None
        for i, c in enumerate(ex.choices):
            used.append(pre)
            if last is not None and c != last and last in ex.enabled_log[i]:
                pre += 1
            last = c
        for i in range(len(prefix), len(ex.choices)):
            en = ex.enabled_log[i]
            prev = ex.choices[i - 1] if i > 0 else None
            for alt in en:
                if alt == ex.choices[i]:
                    continue
                cost = used[i] + (1 if (prev is not None and prev in en and alt != prev) else 0)
                if cost > bound:
                    continue
                rec(list(ex.choices[:i]) + [alt])

    rec([])
    return stats
