"""Scopes: finite alphabets every check draws from (DESIGN 2.4). All enumerations are index based so a
block descriptor is just (scope name, parameters, index range)."""
from __future__ import annotations

import itertools

import numpy as np


# ------------------------------------------------------------------------------------------------ grids
def grid_count(shape, k):
    n = 1
    for s in shape:
        n *= s
    return (k + 1) ** n


def grid(i, shape, k, dtype=np.uint8):
    """i-th array of the given shape over labels 0..k (little-endian digits; index 0 = all zero)."""
    n = int(np.prod(shape))
    base = k + 1
    digs = []
    for _ in range(n):
        digs.append(i % base)
        i //= base
    return np.array(digs, dtype=dtype).reshape(shape)


def canonical_first_occurrence(arr):
    """True iff labels appear in order 1,2,3.. by first occurrence (canonical representative under
    label renaming)."""
    nxt = 1
    for v in arr.ravel().tolist():
        if v == 0:
            continue
        if v > nxt:
            return False
        if v == nxt:
            nxt += 1
    return True


def ranges(total, size):
    return [(a, min(a + size, total)) for a in range(0, total, size)]


# ------------------------------------------------------------------------------------------------ contingency tables
def ct_count(P, R, c):
    return (c + 1) ** ((P + 1) * (R + 1) - 1)


def ct_table(i, P, R, c):
    """i-th (P+1)x(R+1) table n[p][r] in 0..c (cell (0,0) = background/background is fixed to 1 voxel)."""
    cells = []
    base = c + 1
    for _ in range((P + 1) * (R + 1) - 1):
        cells.append(i % base)
        i //= base
    t = [[0] * (R + 1) for _ in range(P + 1)]
    it = iter(cells)
    for p in range(P + 1):
        for r in range(R + 1):
            if p == 0 and r == 0:
                continue
            t[p][r] = next(it)
    return t


def ct_arrays(table, dtype=np.uint8, interleave=False):
    """Realise a contingency table as a 1-D label-map pair. One background voxel is placed between
    runs only if interleave (geometry irrelevant for overlap metrics)."""
    pred, ref = [], []
    for p, row in enumerate(table):
        for r, n in enumerate(row):
            if p == 0 and r == 0:
                continue
            pred.extend([p] * n)
            ref.extend([r] * n)
    pred.append(0)
    ref.append(0)
    return np.array(pred, dtype=dtype), np.array(ref, dtype=dtype)


# ------------------------------------------------------------------------------------------------ RLE volumes
RLE_LENGTHS = (1, 255, 256, 257, 65535, 65536, 600001)


def _rle_lengths(s):
    """RLE(1), RLE(2) use every run length; RLE(3) leaves out the 600 001-voxel run (three of them would be 1.8 M voxels per case)"""
    return RLE_LENGTHS if s <= 2 else RLE_LENGTHS[:6]


def rle_count(s, nlab=3):
    return (nlab * nlab * len(_rle_lengths(s))) ** s


def rle_pair(i, s, nlab=3, dtype=np.uint8):
    pred, ref = [], []
    lengths = _rle_lengths(s)
    base = nlab * nlab * len(lengths)
    segs = []
    for _ in range(s):
        d = i % base
        i //= base
        pl = d % nlab
        d //= nlab
        rl = d % nlab
        d //= nlab
        ln = lengths[d]
        segs.append((pl, rl, ln))
        pred.append(np.full(ln, pl, dtype=dtype))
        ref.append(np.full(ln, rl, dtype=dtype))
    return np.concatenate(pred), np.concatenate(ref), segs


# ------------------------------------------------------------------------------------------------ labels / dtypes
LAB_ALL = (1, 2, 3, 127, 128, 129, 254, 255, 256, 257, 65534, 65535, 65536, 70000, 2**24 - 1)
LABQ = (1, 2, 128, 255, 256, 65535, 65536, 70000)
UDT = ("uint8", "uint16", "uint32", "uint64")
SDT = ("int8", "int16", "int32", "int64")


def lab_for(dtype, base=LAB_ALL):
    mx = np.iinfo(np.dtype(dtype)).max
    return tuple(v for v in base if v <= mx)


def injective_maps(labels, targets):
    """All injective maps from `labels` (tuple) into `targets`."""
    for img in itertools.permutations(targets, len(labels)):
        yield dict(zip(labels, img))


def relabel(arr, mapping, dtype):
    out = np.zeros(arr.shape, dtype=dtype)
    for a, b in mapping.items():
        out[arr == a] = b
    return out


# ------------------------------------------------------------------------------------------------ transformations
def flips(ndim):
    return list(itertools.product((False, True), repeat=ndim))


def perms(ndim):
    return list(itertools.permutations(range(ndim)))


PAD1 = ((0, 0), (1, 0), (0, 3), (3, 3))
PAD3 = ((0, 0), (3, 3))
LAYOUTS = ("C", "F", "rev", "strided")
# (prediction layout, reference layout): same layout on both sides, and mixed layouts
LAYOUT_PAIRS = (("C", "C"), ("F", "F"), ("rev", "rev"), ("strided", "strided"), ("F", "C"), ("C", "F"), ("rev", "C"), ("strided", "F"))
LAYOUT_PAIRS_ALL = tuple((a, b) for a in LAYOUTS for b in LAYOUTS)


def pad_patterns(ndim):
    base = PAD1 if ndim < 3 else PAD3
    return list(itertools.product(base, repeat=ndim))


def apply_transform(arr, flip, perm, pad, layout, side=0):
    """layout: a layout name, or a pair (prediction layout, reference layout) - `side` selects the component"""
    if not isinstance(layout, str):
        layout = layout[side]
    a = arr
    for ax, fl in enumerate(flip):
        if fl:
            a = np.flip(a, axis=ax)
    a = np.transpose(a, perm)
    a = np.pad(a, pad, mode="constant")
    return apply_layout(a, layout)


def apply_layout(a, layout):
    if layout == "C":
        return np.ascontiguousarray(a)
    if layout == "F":
        return np.asfortranarray(a)
    if layout == "rev":
        # a view with negative strides whose logical content equals a
        b = np.ascontiguousarray(np.flip(a))
        return np.flip(b)
    if layout == "strided":
        big = np.zeros(tuple(2 * s for s in a.shape), dtype=a.dtype)
        sl = tuple(slice(0, None, 2) for _ in a.shape)
        big[sl] = a
        return big[sl]
    raise ValueError(layout)


def transforms_full(ndim):
    for fl in flips(ndim):
        for pm in perms(ndim):
            for pd in pad_patterns(ndim):
                for ly in LAYOUT_PAIRS:
                    yield (fl, pm, pd, ly)


def transforms_gen(ndim):
    ident_f = tuple([False] * ndim)
    ident_p = tuple(range(ndim))
    ident_pad = tuple([(0, 0)] * ndim)
    out = []
    for ax in range(ndim):
        fl = [False] * ndim
        fl[ax] = True
        out.append((tuple(fl), ident_p, ident_pad, "C"))
    for pm in perms(ndim):
        if pm != ident_p and sum(1 for i, p in enumerate(pm) if i != p) == 2:
            out.append((ident_f, pm, ident_pad, "C"))
    for pd in pad_patterns(ndim):
        if pd != ident_pad:
            out.append((ident_f, ident_p, pd, "C"))
    for ly in LAYOUT_PAIRS_ALL[1:]:
        out.append((ident_f, ident_p, ident_pad, ly))
    # mixed layouts combined with each axis permutation (Fortran order is what a transposed view has)
    for pm in perms(ndim):
        if pm != ident_p:
            for ly in (("F", "C"), ("C", "F"), ("rev", "F"), ("strided", "C")):
                out.append((ident_f, pm, ident_pad, ly))
    return out


# ------------------------------------------------------------------------------------------------ json helpers
def arr_to_case(a):
    if a.size > 4096:
        # run-length form (C order) for large arrays
        f = np.ascontiguousarray(a).ravel()
        cut = np.flatnonzero(np.concatenate(([True], f[1:] != f[:-1])))
        lens = np.diff(np.concatenate((cut, [f.size])))
        return {"__rle__": [[int(f[c]), int(n)] for c, n in zip(cut, lens)], "shape": list(a.shape), "dtype": str(a.dtype)}
    return {"__nd__": a.tolist(), "dtype": str(a.dtype)}


def arr_from_case(d):
    if "__rle__" in d:
        vals = np.array([v for v, n in d["__rle__"]], dtype=d["dtype"])
        return np.repeat(vals, [n for v, n in d["__rle__"]]).reshape(d["shape"])
    return np.array(d["__nd__"], dtype=d["dtype"])
