"""Owned nondeterminism: worker pool, locks, file system, atexit, stdout, repo path.

Everything is installed at the level of the standard library objects that panoptica binds at
import time, so no hook in the repository is needed (DESIGN 2.1).  `install()` must be called before
`import panoptica`.
"""
from __future__ import annotations

import atexit as _atexit
import builtins
import io
import itertools
import multiprocessing
import multiprocessing.pool
import os
import pickle
import sys
import threading

REPO = os.environ.get("VERIF_REPO", "/repo")

_installed = False
real_stdout = sys.stdout
real_open = builtins.open
real_os_stat = os.stat
real_os_remove = os.remove
real_os_unlink = os.unlink
real_os_mkdir = os.mkdir
real_Pool = multiprocessing.Pool
real_Lock = multiprocessing.Lock
real_atexit_register = _atexit.register

# counters of *real* OS resources touched by panoptica during an exploration (seam self-check)
leaks = {"real_pool": 0, "real_file_under_vfs": 0}


class _Null(io.TextIOBase):
    def write(self, s):
        return len(s)

    def flush(self):
        pass

    def isatty(self):
        return False


NULL = _Null()


def say(*a, **k):
    """Harness output (panoptica's own prints go to the null writer)."""
    k.setdefault("file", real_stdout)
    k.setdefault("flush", True)
    print(*a, **k)


# ------------------------------------------------------------------------------------------------ pool
class PoolMode:
    mode = "serial"  # serial | permute | real
    # permute mode: the permutation index to use for the next pool calls, set by the driver
    perm_iter = None  # callable(n_tasks) -> order (list of indices)
    copy_args = True  # mimic process boundary: tasks and results are pickled
    calls = 0
    tasks = 0
    log = None  # optional list collecting (n_tasks) per call


def _roundtrip(x):
    return pickle.loads(pickle.dumps(x, protocol=pickle.HIGHEST_PROTOCOL))


class _AsyncResult:
    def __init__(self, value):
        self._v = value

    def get(self, timeout=None):
        return self._v

    def wait(self, timeout=None):
        pass

    def ready(self):
        return True

    def successful(self):
        return True


class SerialPool:
    """In-process stand-in for multiprocessing.Pool.

    Tasks (function arguments) and results cross a pickle boundary exactly as with worker processes,
    so in-place modification inside a task cannot leak to the caller (and unpicklable tasks fail).
    In `permute` mode the task list is *executed* in an order chosen by the driver while results are
    returned in submission order (what starmap guarantees); `imap_unordered` yields in execution order.
    """

    def __init__(self, *a, **k):
        self._closed = False

    def __enter__(self):
        return self

    def __exit__(self, *a):
        self._closed = True
        return False

    def close(self):
        self._closed = True

    def terminate(self):
        self._closed = True

    def join(self):
        pass

    # -- core
    def _run(self, func, argtuples, ordered=True):
        argtuples = list(argtuples)
        n = len(argtuples)
        PoolMode.calls += 1
        PoolMode.tasks += n
        if PoolMode.log is not None:
            PoolMode.log.append(n)
        order = list(range(n))
        if PoolMode.mode == "permute" and PoolMode.perm_iter is not None:
            order = list(PoolMode.perm_iter(n))
        out = [None] * n
        seq = []
        for i in order:
            args = _roundtrip(argtuples[i]) if PoolMode.copy_args else argtuples[i]
            r = func(*args)
            r = _roundtrip(r) if PoolMode.copy_args else r
            out[i] = r
            seq.append(r)
        return out if ordered else seq

    def starmap(self, func, iterable, chunksize=None):
        return self._run(func, [tuple(x) for x in iterable])

    def map(self, func, iterable, chunksize=None):
        return self._run(func, [(x,) for x in iterable])

    def imap(self, func, iterable, chunksize=1):
        return iter(self._run(func, [(x,) for x in iterable]))

    def imap_unordered(self, func, iterable, chunksize=1):
        return iter(self._run(func, [(x,) for x in iterable], ordered=False))

    def apply(self, func, args=(), kwds={}):
        return self._run(lambda *a: func(*a, **kwds), [tuple(args)])[0]

    def apply_async(self, func, args=(), kwds={}, callback=None, error_callback=None):
        r = self.apply(func, args, kwds)
        if callback:
            callback(r)
        return _AsyncResult(r)

    def starmap_async(self, func, iterable, chunksize=None, callback=None, error_callback=None):
        r = self.starmap(func, iterable)
        if callback:
            callback(r)
        return _AsyncResult(r)

    def map_async(self, func, iterable, chunksize=None, callback=None, error_callback=None):
        r = self.map(func, iterable)
        if callback:
            callback(r)
        return _AsyncResult(r)


def _pool_factory(*a, **k):
    if PoolMode.mode == "real":
        return real_Pool(*a, **k)
    return SerialPool(*a, **k)


# ------------------------------------------------------------------------------------------------ locks
class LockHooks:
    """The scheduler (pmc.sched) installs callbacks here; default = plain non-blocking bookkeeping."""

    factory = None  # callable() -> lock object


class PlainLock:
    """Default lock when no scheduler is active: a real threading lock (never contended in
    single-threaded exploration) that records acquire/release counts."""

    count = 0

    def __init__(self):
        self._l = threading.RLock()
        self.holder = None
        PlainLock.count += 1

    def acquire(self, block=True, timeout=None):
        from . import vfs

        vfs.op("lock.acquire", self)
        self.holder = threading.get_ident()
        return True

    def release(self):
        from . import vfs

        vfs.op("lock.release", self)
        self.holder = None

    def __enter__(self):
        self.acquire()
        return self

    def __exit__(self, *a):
        self.release()
        return False


def _lock_factory(*a, **k):
    if LockHooks.factory is not None:
        return LockHooks.factory()
    from . import sched

    return sched.SchedLock()


# ------------------------------------------------------------------------------------------------ atexit
atexit_callbacks: list = []


def _atexit_register(func, *a, **k):
    mod = getattr(func, "__module__", "") or ""
    selfobj = getattr(func, "__self__", None)
    if mod.startswith("panoptica") or (selfobj is not None and type(selfobj).__module__.startswith("panoptica")):
        atexit_callbacks.append((func, a, k))
        return func
    return real_atexit_register(func, *a, **k)


# ------------------------------------------------------------------------------------------------ install
def install(quiet=True):
    """Install all seams. Idempotent. Must precede `import panoptica`."""
    global _installed
    if _installed:
        return
    assert "panoptica" not in sys.modules, "seams must be installed before panoptica is imported"
    os.environ["PANOPTICA_CITATION_REMINDER"] = "false"
    if REPO not in sys.path:
        sys.path.insert(0, REPO)
    multiprocessing.Pool = _pool_factory
    multiprocessing.Lock = _lock_factory
    _atexit.register = _atexit_register
    from . import vfs

    vfs.install()
    # count real pools created while exploring (self-check)
    _orig_init = multiprocessing.pool.Pool.__init__

    def _counting_init(self, *a, **k):
        if PoolMode.mode != "real" and not getattr(threading.current_thread(), "_pmc_engine", False):
            leaks["real_pool"] += 1
        return _orig_init(self, *a, **k)

    multiprocessing.pool.Pool.__init__ = _counting_init
    if quiet:
        sys.stdout = NULL
    import warnings

    warnings.filterwarnings("ignore")
    _installed = True
    import panoptica  # noqa: F401

    src = os.path.dirname(os.path.abspath(panoptica.__file__))
    assert src.startswith(os.path.abspath(REPO)), f"panoptica imported from {src}, expected {REPO}"


def perms_of(n, cap=None):
    """All execution orders of n tasks (identity first)."""
    it = itertools.permutations(range(n))
    return it if cap is None else itertools.islice(it, cap)
