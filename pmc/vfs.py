"""In-memory file system under the path prefix /vfs/ with buffered handles, crash semantics and a single
operation hook (scheduling point / crash point).

Model (conformance-checked against the real OS in pmc.props.envconf):
* open(path,'a'|'w') creates the file at once ('w' truncates); text written is buffered in the handle and
  becomes visible as ONE append when the handle is flushed/closed, or earlier - still as one append of everything
  pending - as soon as the pending bytes exceed io.DEFAULT_BUFFER_SIZE (what CPython's text layer does);
  concurrent 'w' writers are modelled as appenders (panoptica only appends);
* open(path,'r') fails if absent; the content is taken at the first read;
* a crash discards all unflushed handle buffers; after a crash every operation is a no-op (the process is
  gone), so `with` blocks unwinding because of the Crash exception cannot touch the file system.
"""
from __future__ import annotations

import builtins
import errno
import io
import os
import stat as _stat

PREFIX = "/vfs/"


class Crash(BaseException):
    """Raised at the chosen crash point; BaseException so no `except Exception` in the code under test
    can swallow it."""


class FS:
    def __init__(self):
        self.files: dict[str, str] = {}
        self.dirs: set[str] = {"/vfs"}
        self.crashed = False
        self.nops = 0
        self.oplog: list | None = None
        self.open_handles: list = []

    def snapshot(self):
        return tuple(sorted(self.files.items()))

    def mkdirs(self, d):
        d = d.rstrip("/")
        parts = d.split("/")
        for i in range(2, len(parts) + 1):
            self.dirs.add("/".join(parts[:i]))


fs = FS()
on_op = None  # callable(kind:str, detail) ; may block (scheduler) or raise Crash
on_read = None  # callable(path, content): what a reader observed (part of the explorer's state key)


def reset(files: dict | None = None, dirs=()):
    global fs
    fs = FS()
    for d in dirs:
        fs.mkdirs(d)
    if files:
        for p, c in files.items():
            fs.mkdirs(os.path.dirname(p))
            fs.files[p] = c
    return fs


def op(kind, detail=None):
    """Central scheduling / crash point, called immediately BEFORE the operation takes effect.
    Returns False when the operation must not take effect (process already crashed)."""
    if fs.crashed:
        return False
    fs.nops += 1
    if fs.oplog is not None:
        fs.oplog.append((kind, detail if isinstance(detail, str) else None))
    if on_op is not None:
        on_op(kind, detail)  # may raise Crash after setting fs.crashed
    return not fs.crashed


def crash_now():
    fs.crashed = True
    for h in list(fs.open_handles):
        h._dead = True
    raise Crash()


def _is_vfs(path):
    try:
        p = os.fspath(path)
    except TypeError:
        return False
    if isinstance(p, bytes):
        return False
    return p.startswith(PREFIX) or p == "/vfs"


def _norm(path):
    p = os.path.normpath(os.fspath(path))
    return p


def _enoent(p):
    return FileNotFoundError(errno.ENOENT, os.strerror(errno.ENOENT), p)


class WriteHandle(io.TextIOBase):
    def __init__(self, path, mode):
        self._path = path
        self._buf: list[str] = []
        self._pending = 0
        self._dead = False
        self._closed = False
        self.mode = mode
        self.name = path
        fs.open_handles.append(self)

    def writable(self):
        return True

    def write(self, s):
        if self._closed:
            raise ValueError("I/O operation on closed file.")
        if not isinstance(s, str):
            raise TypeError("write() argument must be str")
        self._buf.append(s)
        self._pending += len(s.encode("utf8"))
        # CPython's text layer hands everything pending to the OS in ONE write(2) as soon as the pending bytes exceed its
        # chunk size (measured with strace on CPython 3.12: a 9000-byte row is one write at writerow() time, never torn)
        if self._pending > io.DEFAULT_BUFFER_SIZE:
            self._commit()
        return len(s)

    def _commit(self):
        if self._dead or not self._buf:
            self._buf = []
            self._pending = 0
            return
        data = "".join(self._buf)
        self._buf = []
        self._pending = 0
        if not op("write", self._path):
            return
        fs.files[self._path] = fs.files.get(self._path, "") + data

    def flush(self):
        if not self._closed:
            self._commit()

    def close(self):
        if self._closed:
            return
        try:
            self._commit()
        finally:
            self._closed = True
            if self in fs.open_handles:
                fs.open_handles.remove(self)

    @property
    def closed(self):
        return self._closed

    def __enter__(self):
        return self

    def __exit__(self, *a):
        self.close()
        return False


class ReadHandle(io.TextIOBase):
    def __init__(self, path):
        self._path = path
        self._sio: io.StringIO | None = None
        self._closed = False
        self.mode = "r"
        self.name = path

    def readable(self):
        return True

    def _load(self):
        if self._sio is None:
            op("read", self._path)
            content = fs.files.get(self._path, "")
            if on_read is not None:
                on_read(self._path, content)
            self._sio = io.StringIO(content, newline="")
        return self._sio

    def read(self, n=-1):
        return self._load().read(n)

    def readline(self, n=-1):
        return self._load().readline(n)

    def readlines(self, hint=-1):
        return self._load().readlines(hint)

    def __iter__(self):
        return self

    def __next__(self):
        line = self._load().readline()
        if line == "":
            raise StopIteration
        return line

    def close(self):
        self._closed = True

    @property
    def closed(self):
        return self._closed

    def __enter__(self):
        return self

    def __exit__(self, *a):
        self.close()
        return False


_real_open = builtins.open
_real_io_open = io.open
_real_stat = os.stat
_real_lstat = os.lstat
_real_remove = os.remove
_real_unlink = os.unlink
_real_mkdir = os.mkdir


def vfs_open(file, mode="r", *a, **k):
    if not _is_vfs(file):
        return _real_open(file, mode, *a, **k)
    p = _norm(file)
    if "b" in mode:
        if any(c in mode for c in "wax+"):
            raise NotImplementedError("binary write mode on the VFS")
        op("open", p)
        if p not in fs.files:
            raise _enoent(p)
        op("read", p)
        if on_read is not None:
            on_read(p, fs.files[p])
        return io.BytesIO(fs.files[p].encode("utf8"))
    op("open", p)
    if fs.crashed:
        return WriteHandle(p, mode) if ("a" in mode or "w" in mode) else ReadHandle(p)
    parent = os.path.dirname(p)
    if parent not in fs.dirs:
        raise _enoent(p)
    if p in fs.dirs:
        raise IsADirectoryError(errno.EISDIR, os.strerror(errno.EISDIR), p)
    if "a" in mode:
        fs.files.setdefault(p, "")
        return WriteHandle(p, mode)
    if "w" in mode:
        fs.files[p] = ""
        return WriteHandle(p, mode)
    if "x" in mode:
        if p in fs.files:
            raise FileExistsError(errno.EEXIST, os.strerror(errno.EEXIST), p)
        fs.files[p] = ""
        return WriteHandle(p, mode)
    if p not in fs.files:
        raise _enoent(p)
    return ReadHandle(p)


def _stat_result(mode, size):
    return os.stat_result((mode, 1, 1, 1, 0, 0, size, 0, 0, 0))


def vfs_stat(path, *a, **k):
    if isinstance(path, int) or not _is_vfs(path):
        return _real_stat(path, *a, **k)
    p = _norm(path)
    op("stat", p)
    if p in fs.dirs:
        return _stat_result(_stat.S_IFDIR | 0o755, 0)
    if p in fs.files:
        return _stat_result(_stat.S_IFREG | 0o644, len(fs.files[p].encode("utf8")))
    raise _enoent(p)


def vfs_lstat(path, *a, **k):
    if isinstance(path, int) or not _is_vfs(path):
        return _real_lstat(path, *a, **k)
    return vfs_stat(path)


def vfs_remove(path, *a, **k):
    if not _is_vfs(path):
        return _real_remove(path, *a, **k)
    p = _norm(path)
    if not op("remove", p):
        return
    if p not in fs.files:
        raise _enoent(p)
    del fs.files[p]


def vfs_mkdir(path, mode=0o777, *a, **k):
    if not _is_vfs(path):
        return _real_mkdir(path, mode, *a, **k)
    p = _norm(path)
    if not op("mkdir", p):
        return
    if p in fs.dirs or p in fs.files:
        raise FileExistsError(errno.EEXIST, os.strerror(errno.EEXIST), p)
    if os.path.dirname(p) not in fs.dirs:
        raise _enoent(p)
    fs.dirs.add(p)


def install():
    builtins.open = vfs_open
    io.open = vfs_open
    os.stat = vfs_stat
    os.lstat = vfs_lstat
    os.remove = vfs_remove
    os.unlink = vfs_remove
    os.mkdir = vfs_mkdir
