"""Plain unit tests: every committed replay file (a failing case of the pinned tree) is re-executed without the explorer and
must hold on the current /repo tree.   run:  cd /verif && PYTHONHASHSEED=0 /venv/bin/python -m pytest -q tests/test_replays.py"""
import glob
import importlib
import json
import os
import sys

import pytest

VERIF = os.path.dirname(os.path.dirname(os.path.abspath(__file__)))
sys.path.insert(0, VERIF)
from pmc import seams  # noqa: E402

seams.install()
from pmc import engine  # noqa: E402

FILES = sorted(glob.glob(os.path.join(VERIF, "replays", "*", "*.json")))


@pytest.mark.parametrize("path", FILES, ids=[os.path.relpath(f, VERIF) for f in FILES])
def test_replay_holds(path):
    data = json.load(open(path))
    prop = importlib.import_module("pmc.props." + data["property"])
    acc = engine.Acc(prop.ID)
    prop.run_case(data["case"], acc)
    assert not acc.violations, [v[0] + ": " + v[3][:200] for v in acc.violations]
