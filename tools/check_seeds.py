#!/venv/bin/python
"""Run every kept seed (seeded/<name>/patch.diff) against the quick checks named in its meta.json 'caught_by' and write
seeded/RESULTS.md + RESULTS.json: which check reports which seeded change. Never touches /repo.
usage: check_seeds.py [name-prefix ...]"""
import json, os, subprocess, sys, time
VERIF = os.path.dirname(os.path.dirname(os.path.abspath(__file__)))
sel = sys.argv[1:]
names = sorted(n for n in os.listdir(os.path.join(VERIF, "seeded")) if os.path.isdir(os.path.join(VERIF, "seeded", n)) and (not sel or any(n.startswith(s) for s in sel)))
res_path = os.path.join(VERIF, "seeded", "RESULTS.json")
results = json.load(open(res_path)) if os.path.exists(res_path) else {}
for n in names:
    meta = json.load(open(os.path.join(VERIF, "seeded", n, "meta.json")))
    checks = meta.get("caught_by") or [meta["property"]]
    row = {}
    for c in checks:
        t = time.time()
        r = subprocess.run([os.path.join(VERIF, "tools", "run_mutant.py"), os.path.join(VERIF, "seeded", n, "patch.diff"), "--checks", c, "--budget", "1200"], capture_output=True, text=True)
        line = next((l for l in r.stdout.splitlines() if l.startswith("CHECK")), "CHECK ? exit=?")
        code = line.split("exit=")[1].split()[0]
        sigs = sorted({l.split("[")[1].split("]")[0] for l in r.stdout.splitlines() if l.strip().startswith("[")})
        row[c] = {"exit": code, "signatures": sigs[:6], "wall_s": round(time.time() - t)}
        print(n, c, "exit=" + code, sigs[:2], flush=True)
    results[n] = {"property": meta["property"], "checks": row}
    json.dump(results, open(res_path, "w"), indent=1)
with open(os.path.join(VERIF, "seeded", "RESULTS.md"), "w") as f:
    f.write("# Seeded changes vs registered quick checks (written by tools/check_seeds.py)\n\n| seed | breaks | check -> exit code (1 = VIOLATION reported) | first signatures |\n|---|---|---|---|\n")
    for n in sorted(results):
        r = results[n]
        f.write(f"| {n} | {r['property']} | " + ", ".join(f"{c} -> {v['exit']}" for c, v in r["checks"].items()) + " | " + "; ".join(s for v in r["checks"].values() for s in v["signatures"][:2]) + " |\n")
print("written", res_path)
