#!/venv/bin/python
"""Free-running supplement for C16 (never the deciding step): real threads and real forked processes, real
multiprocessing locks, real files, no harness seams. Same row oracle as the scheduled exploration.
usage: free_run.py [repetitions]   exit 0 = oracle held on every run, 1 otherwise."""
import csv, os, shutil, sys, tempfile, threading, multiprocessing
os.environ["PANOPTICA_CITATION_REMINDER"] = "false"
sys.path.insert(0, os.environ.get("VERIF_REPO", "/repo"))
import numpy as np
sys.stdout = open(os.devnull, "w")
from panoptica import Panoptica_Aggregator, Panoptica_Evaluator, InputType
from panoptica.instance_matcher import NaiveThresholdMatching
from panoptica.metrics import Metric

P = {"s1": (np.array([[1, 1, 0, 0], [0, 0, 2, 2]], dtype=np.uint8), np.array([[1, 1, 1, 0], [0, 0, 2, 0]], dtype=np.uint8)),
     "s2": (np.array([[1, 0, 0, 0], [0, 0, 0, 2]], dtype=np.uint8), np.array([[1, 1, 0, 0], [0, 0, 0, 0]], dtype=np.uint8)),
     "s3": (np.zeros((2, 4), dtype=np.uint8), np.array([[0, 3, 3, 0], [0, 0, 0, 0]], dtype=np.uint8))}
NAMES = ["s1", "s2", "s1", "s3", "s2", "s1", "s3", "s3"]

def rows(path):
    with open(path, newline="") as f:
        return [r for r in csv.reader(f, delimiter="\t")]

def main():
    reps = int(sys.argv[1]) if len(sys.argv) > 1 else 10
    bad = 0
    for rep in range(reps):
        for mode in ("thread", "process"):
            d = tempfile.mkdtemp(prefix="pmc_free_")
            try:
                ev = Panoptica_Evaluator(expected_input=InputType.UNMATCHED_INSTANCE, instance_matcher=NaiveThresholdMatching(), instance_metrics=[Metric.DSC, Metric.IOU])
                seq = Panoptica_Aggregator(ev, os.path.join(d, "seq.tsv"))
                for n in ("s1", "s2", "s3"):
                    seq.evaluate(P[n][0].copy(), P[n][1].copy(), n)
                want = {r[0]: r for r in rows(os.path.join(d, "seq.tsv"))[1:]}
                A = Panoptica_Aggregator(ev, os.path.join(d, "out.tsv"))
                mk = (lambda n: threading.Thread(target=A.evaluate, args=(P[n][0].copy(), P[n][1].copy(), n))) if mode == "thread" else \
                     (lambda n: multiprocessing.Process(target=A.evaluate, args=(P[n][0].copy(), P[n][1].copy(), n)))
                ws = [mk(n) for n in NAMES]
                [w.start() for w in ws]
                [w.join(120) for w in ws]
                got = rows(os.path.join(d, "out.tsv"))
                names = sorted(r[0] for r in got[1:])
                ok = names == ["s1", "s2", "s3"] and all(r == want[r[0]] for r in got[1:]) and not any(w.is_alive() for w in ws)
                if not ok:
                    bad += 1
                    print(f"FREE-RUN oracle failed: mode={mode} rep={rep} rows={names}", file=sys.__stdout__)
            finally:
                shutil.rmtree(d, ignore_errors=True)
    print(f"free-running pass: {reps} repetitions x (threads, processes) x {len(NAMES)} concurrent calls, oracle failures: {bad}", file=sys.__stdout__)
    return 1 if bad else 0

if __name__ == "__main__":
    sys.exit(main())
