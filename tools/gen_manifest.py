#!/venv/bin/python
"""Regenerate MANIFEST.json from the registry below (keeps the manifest valid at all times)."""
import json, os, sys
VERIF = os.path.dirname(os.path.dirname(os.path.abspath(__file__)))
sys.path.insert(0, VERIF)
from tools.registry import CHECKS, NOT_APPLICABLE, HOOK_COMMITS

ids = [json.loads(l)["id"] for l in open(os.path.join(VERIF, "properties.jsonl"))]
checks = []
for cid in ids:
    if cid not in CHECKS:
        continue
    c = CHECKS[cid]
    checks.append({
        "property_id": cid,
        "quick_cmd": f"./check {cid} --tier quick",
        "thorough_cmd": f"./check {cid} --tier thorough",
        "evidence_file": f"/verif/evidence/{cid}.json",
        "replay_cmd_template": f"./check {cid} --replay {{path}}",
        "engine": "pmc",
        "level_claimed": {"category": c["level"], "text": c["text"], "design_ref": c.get("design_ref", f"DESIGN.md section 5, {cid}")},
        "level_note": c["note"],
        "technique": c["technique"],
    })
na = [{"property_id": i, "reason": NOT_APPLICABLE.get(i, "check not built yet (work in progress in this session); no claim is made")} for i in ids if i not in CHECKS]
m = {
    "version": 1,
    "setup_cmd": "cd /verif && ./check --list >/dev/null && PYTHONHASHSEED=0 /venv/bin/python -c \"import sys; sys.path.insert(0,'/verif'); from pmc import seams; seams.install(); import panoptica, numpy, scipy, cc3d, skimage\"",
    "hooks": {
        "guard": "PANOPTICA_VERIF",
        "enable": "no source hooks are needed: the harness replaces multiprocessing.Pool/Lock, builtins.open/io.open, os.stat/remove/mkdir and atexit.register before importing panoptica from /repo's working tree (editable install, no build step)",
        "baseline_off_cmd": "cd /repo && /venv/bin/python -m pytest -ra -q -p no:cacheprovider --timeout=900 --continue-on-collection-errors",
        "source_commits": HOOK_COMMITS,
        "add_only": True,
    },
    "engines": [{"name": "pmc", "path": "/verif/pmc", "serves_properties": [c["property_id"] for c in checks],
                 "kind_free_text": "hand-written explicit-state / small-scope exhaustive explorer driving the real panoptica code (sharded over 16 forked workers), cooperative thread scheduler and in-memory file system with crash injection, reference model in plain Python"}],
    "checks": checks,
    "not_applicable": na,
    "notes": "All checks: exit 0 = held on everything explored, 1 = VIOLATION line + replay file, 2 = harness error (no verdict). VERIF_SEED rotates shard assignment only; explored sets are seed independent (case_set_hash in evidence).",
}
if not na:
    m["not_applicable"] = []
json.dump(m, open(os.path.join(VERIF, "MANIFEST.json"), "w"), indent=1)
print("checks:", [c["property_id"] for c in checks], "not_applicable:", [x["property_id"] for x in na])
