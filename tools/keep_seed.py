#!/venv/bin/python
"""keep_seed.py <name> <srcdir> <property> <caught_by> <needs...>: copy patch.diff + demo.py into /verif/seeded/<name>/ and write meta.json"""
import json, os, shutil, sys
name, src, prop, caught = sys.argv[1:5]
needs = " ".join(sys.argv[5:])
dst = f"/verif/seeded/{name}"
os.makedirs(dst, exist_ok=True)
for f in ("patch.diff", "demo.py", "notes.md"):
    if os.path.exists(os.path.join(src, f)):
        shutil.copy(os.path.join(src, f), dst)
meta = {"id": name, "property": prop, "origin": "independent sub-agent given only the property text and a scratch worktree" if not name.startswith("own_") else "written by the author of the checks",
        "needs_to_manifest": needs,
        "confirmed": "tools/run_mutant.py <patch> --tests --demo <demo> --checks <ids>: patch applies to /repo HEAD in a scratch copy, the 80 pinned tests pass, demo exits non-zero on the changed copy and 0 on /repo",
        "caught_by": caught.split(",") if caught else []}
json.dump(meta, open(os.path.join(dst, "meta.json"), "w"), indent=1)
print("kept", dst)
