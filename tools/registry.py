HOOK_COMMITS = []
NOT_APPLICABLE = {}
CHECKS = {
 "C06": dict(level="model_checking",
   technique="small-scope exhaustive enumeration of inputs on the real metric functions vs exact rational set formulas",
   text="Every label-array pair of the stated small grids x every reference label x every prediction selector, every mask pair x mask dtype, and every run-length volume across the 8/16-bit counter boundaries is executed on the real Metric objects and compared exactly with |X∩Y|-style rational formulas; nothing is sampled. Right level because the property is a for-all over inputs whose interesting shapes (label selection forms, dtype counter widths, empty/identical masks) all occur in tiny scopes.",
   note="Bounded scope (grids up to 3x3 / 2x2x2 / 1-D length 6; volumes from the RLE alphabet). clDice trusts skimage's skeleton. Floating point: overlap metrics compared exactly, clDice to 1e-12."),
}
