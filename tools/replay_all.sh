#!/bin/bash
# replay every committed replay file (failing cases of the pinned tree) without the explorer: on the repaired tree all must report "no violation"
cd "$(dirname "$0")/.."
rc=0
for f in replays/*/*.json; do
  id=$(basename $(dirname $f))
  out=$(./check $id --replay $f 2>&1 | tail -1)
  case "$out" in *"no violation"*) echo "ok   $f";; *) echo "FAIL $f :: $out" | cut -c1-300; rc=1;; esac
done
exit $rc
