#!/bin/bash
# run every registered check of a tier sequentially; print one line per check; validate evidence against the schema
cd "$(dirname "$0")/.."
tier=${1:-quick}
rc=0
for id in $(./check --list); do
  s=$(date +%s)
  out=$(./check $id --tier $tier 2>&1); code=$?
  e=$(date +%s)
  echo "$id exit=$code wall=$((e-s))s $(echo "$out" | tail -1 | cut -c1-220)"
  echo "$out" | grep -E "^(VIOLATION|KNOWN-FINDING|HARNESS)" | head -5
  [ $code -ne 0 ] && rc=1
done
python3-vt - <<'PY'
import json, glob, jsonschema
s = json.load(open('/root/.vp/EVIDENCE.schema.json'))
bad = 0
for f in sorted(glob.glob('/verif/evidence/*.json')):
    try:
        jsonschema.validate(json.load(open(f)), s)
    except Exception as e:
        bad += 1
        print('INVALID', f, str(e)[:200])
print('evidence files valid' if not bad else f'{bad} invalid evidence files')
jsonschema.validate(json.load(open('/verif/MANIFEST.json')), json.load(open('/root/.vp/MANIFEST.schema.json')))
print('manifest valid')
PY
exit $rc
