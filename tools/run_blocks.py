import sys, time
sys.path.insert(0, '/verif')
from pmc import seams  # installs seams before panoptica import
import importlib
from pmc.engine import Acc
pid, sel = sys.argv[1], sys.argv[2]
prop = importlib.import_module(f"pmc.props.{pid}")
blocks = [b for b in prop.blocks("thorough") if eval(sel, {"b": b})]
print(pid, "blocks selected", len(blocks), file=sys.stderr)
t = time.time()
tot = 0
for b in blocks[: int(sys.argv[3]) if len(sys.argv) > 3 else None]:
    acc = Acc(pid)
    prop.run_block(b, acc)
    tot += 1
    if acc.violations:
        print("VIOLATIONS in", b, list(acc.violations.items())[:2] if hasattr(acc.violations, 'items') else acc.violations[:2], file=sys.stderr)
        break
print(pid, "done", tot, "blocks", round(time.time() - t), "s", file=sys.stderr)
