#!/venv/bin/python
"""Apply a patch to a scratch copy of /repo, (optionally) run the pinned test-suite there, run checks against the
copy (VERIF_REPO), report, remove the copy.

usage: run_mutant.py <patch.diff> [--tests] [--checks C01,C02] [--tier quick] [--twice]
Never touches /repo. Evidence/replay files written by the mutant runs are discarded (VERIF evidence is restored).
"""
import argparse, os, shutil, subprocess, sys, tempfile, json, time

VERIF = os.path.dirname(os.path.dirname(os.path.abspath(__file__)))

def main():
    ap = argparse.ArgumentParser()
    ap.add_argument("patch")
    ap.add_argument("--tests", action="store_true")
    ap.add_argument("--checks", default="")
    ap.add_argument("--tier", default="quick")
    ap.add_argument("--twice", action="store_true")
    ap.add_argument("--budget", default=None)
    ap.add_argument("--demo", default=None, help="demonstration program: must exit non-zero on the changed copy and 0 on /repo")
    a = ap.parse_args()
    scratch = tempfile.mkdtemp(prefix="pmc_mut_", dir="/tmp")
    repo = os.path.join(scratch, "repo")
    rc_all = 0
    try:
        shutil.copytree("/repo", repo, symlinks=True, ignore=shutil.ignore_patterns("__pycache__", ".pytest_cache"))
        r = subprocess.run(["git", "apply", "--whitespace=nowarn", os.path.abspath(a.patch)], cwd=repo, capture_output=True, text=True)
        if r.returncode != 0:
            r = subprocess.run(["patch", "-p1", "-i", os.path.abspath(a.patch)], cwd=repo, capture_output=True, text=True)
            if r.returncode != 0:
                print("PATCH-FAILED", r.stdout, r.stderr)
                return 3
        if a.tests:
            env = dict(os.environ, PANOPTICA_CITATION_REMINDER="false")
            r = subprocess.run(["/venv/bin/python", "-m", "pytest", "-q", "-p", "no:cacheprovider", "--timeout=900", "-x", "-q",
                                "--deselect", "unit_tests/test_panoptic_aggregator.py::Test_Example_Scripts",
                                "--deselect", "unit_tests/test_panoptic_evaluator.py::Test_Example_Scripts"],
                               cwd=repo, capture_output=True, text=True, env=env)
            tail = r.stdout.strip().splitlines()[-1:] 
            print("TESTS:", "PASS" if r.returncode == 0 else "FAIL", tail)
            if r.returncode != 0:
                print(r.stdout[-3000:])
                rc_all = 4
        if a.demo:
            env = dict(os.environ, PANOPTICA_CITATION_REMINDER="false")
            for label, root in (("changed", repo), ("unchanged", "/repo")):
                env["PYTHONPATH"] = root
                r = subprocess.run(["/venv/bin/python", os.path.abspath(a.demo)], cwd=root, capture_output=True, text=True, env=env, timeout=1800)
                print(f"DEMO on {label} tree: exit={r.returncode}", (r.stdout.strip().splitlines() or [""])[-1][:200])
        # outputs of mutant runs go to the scratch directory (VERIF_OUT_DIR), never to /verif/evidence
        for cid in [c for c in a.checks.split(",") if c]:
            for rep in range(2 if a.twice else 1):
                env = dict(os.environ, VERIF_REPO=repo, VERIF_OUT_DIR=os.path.join(scratch, "out"))
                if a.budget:
                    env["VERIF_BUDGET_S"] = a.budget
                t = time.time()
                r = subprocess.run([os.path.join(VERIF, "check"), cid, "--tier", a.tier], capture_output=True, text=True, env=env)
                lines = [l for l in r.stdout.splitlines() if l.startswith(("VIOLATION", "KNOWN", "HARNESS", cid, "  ["))]
                print(f"CHECK {cid} exit={r.returncode} wall={time.time()-t:.0f}s")
                for l in lines[:12]:
                    print("   ", l[:300])
                if r.returncode == 2:
                    print(r.stdout[-2000:], r.stderr[-2000:])
    finally:
        shutil.rmtree(scratch, ignore_errors=True)
    return rc_all

if __name__ == "__main__":
    sys.exit(main())
